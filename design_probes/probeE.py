"""Probe E: Recognizer over a hierarchy with free symbolic tags."""
from typing import List, Dict, Union, Optional, Any
import yaml
from yaml.error import Mark
import yatiml, yatiml.util
from yatiml.recognizer import Recognizer
yaml.nodes.Node.__ch_deep_realize__ = lambda self, memo: "N"
yatiml.util.get_close_matches = lambda *a, **k: []

class Shape:
    def __init__(self, c: int) -> None: pass
class Rect(Shape):
    def __init__(self, c: int, w: int, h: int) -> None: pass
class Circle(Shape):
    def __init__(self, c: int, r: int) -> None: pass
class Sq(Rect):
    def __init__(self, c: int, w: int, h: int, s: bool) -> None: pass
REG = {'!Shape': Shape, '!Rect': Rect, '!Circle': Circle, '!Sq': Sq}
P = 'tag:yaml.org,2002:'
KEYS = ['c', 'w', 'h', 'r', 's']
M = Mark('d', 0, 0, 0, None, 0)

def req(cls):
    return {Shape: {'c': int}, Rect: {'c': int, 'w': int, 'h': int}, Circle: {'c': int, 'r': int}, Sq: {'c': int, 'w': int, 'h': int, 's': bool}}[cls]
TAGOF = {int: P+'int', bool: P+'bool'}
SUBS = {Shape: [Rect, Circle], Rect: [Sq], Circle: [], Sq: []}

def ref(present, toptag, cls):
    """reference: most-derived matching classes"""
    def match(c):
        return all(k in present and present[k] == TAGOF[t] for k, t in req(c).items())
    def rec(c):
        out = set()
        for s in SUBS[c]: out |= rec(s)
        if not out and match(c): out = {c}
        return out
    r = rec(cls)
    if len(r) > 1:
        if toptag in REG and REG[toptag] in r: return {REG[toptag]}
        return r
    if len(r) == 1 and not toptag.startswith('tag:yaml.org,2002'):
        if toptag in REG:
            if REG[toptag] not in r: return set()
        else: return set()
    return r

def rec_shape(toptag: str, has: List[bool], tags: List[str]) -> bool:
    """
    pre: len(has) == 5 and len(tags) == 5
    post: __return__
    """
    items = []; present = {}
    for i, k in enumerate(KEYS):
        if has[i]:
            items.append((yaml.ScalarNode(P+'str', k, M, M), yaml.ScalarNode(tags[i], '1', M, M)))
            present[k] = tags[i]
    node = yaml.MappingNode(toptag, items, M, M)
    got, _ = Recognizer(REG, {}).recognize(node, Shape)
    return set(got) == ref(present, toptag, Shape)
