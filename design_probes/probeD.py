"""Probe D: Node attribute ops vs ordered association-list model; free symbolic strings."""
from typing import List, Tuple, Optional
import yaml
from yaml.error import Mark
import yatiml
yaml.nodes.Node.__ch_deep_realize__ = lambda self, memo: "N"
M = Mark('d', 0, 0, 0, None, 0)
S = 'tag:yaml.org,2002:str'

def build(keys):
    items = [(yaml.ScalarNode(S, k, M, M), yaml.ScalarNode(S, 'v%d' % i, M, M)) for i, k in enumerate(keys)]
    return yatiml.Node(yaml.MappingNode('tag:yaml.org,2002:map', items, M, M))

def view(node):
    return [(k.value, v.value) for k, v in node.yaml_node.value]

def ops2(k0: str, k1: str, k2: str, n: int, op1: int, a1: str, b1: str, op2: int, a2: str, b2: str) -> bool:
    """
    pre: 0 <= n <= 3 and 0 <= op1 < 4 and 0 <= op2 < 4
    pre: k0 != k1 and k0 != k2 and k1 != k2
    post: __return__
    """
    keys = [k0, k1, k2][:n]
    node = build(keys)
    model = [(k, 'v%d' % i) for i, k in enumerate(keys)]
    for op, a, b in ((op1, a1, b1), (op2, a2, b2)):
        mkeys = [k for k, _ in model]
        if op == 0:   # has
            if node.has_attribute(a) != (a in mkeys): return False
        elif op == 1:  # set
            node.set_attribute(a, 'new')
            if a in mkeys: model = [(k, 'new' if k == a else v) for k, v in model]
            else: model = model + [(a, 'new')]
        elif op == 2:  # remove
            node.remove_attribute(a)
            model = [(k, v) for k, v in model if k != a]
        else:          # rename (only when target not present: keeps keys distinct)
            if b in mkeys: continue
            node.rename_attribute(a, b)
            model = [((b if k == a else k), v) for k, v in model]
        if view(node) != model: return False
    return True
