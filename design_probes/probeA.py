"""Probe: translate the real resolver tables to z3 regexes; decide C09-style queries."""
import re, sys, time
try:
    import re._parser as sre_parse, re._constants as sre_c
except ImportError:
    import sre_parse, sre_constants as sre_c
import z3, yaml, yatiml

def cls_range(lo, hi): return z3.Range(chr(lo), chr(hi))
ANYCHAR = z3.AllChar(z3.ReSort(z3.StringSort()))
def tr(parsed, flags):
    """sre parse tree -> z3 regex (for fullmatch of the tree)."""
    parts = []
    for op, av in parsed:
        parts.append(tr1(op, av, flags))
    if not parts: return z3.Re('')
    return parts[0] if len(parts) == 1 else z3.Concat(*parts)
def charset(items):
    neg = False; alts = []
    for op, av in items:
        if op is sre_c.NEGATE: neg = True
        elif op is sre_c.LITERAL: alts.append(z3.Re(chr(av)))
        elif op is sre_c.RANGE: alts.append(cls_range(*av))
        elif op is sre_c.CATEGORY:
            if av is sre_c.CATEGORY_DIGIT: alts.append(cls_range(48,57))
            elif av is sre_c.CATEGORY_SPACE: alts.append(z3.Union(*[z3.Re(c) for c in ' \t\n\r\f\v']))
            else: raise NotImplementedError(av)
        else: raise NotImplementedError(op)
    r = alts[0] if len(alts)==1 else z3.Union(*alts)
    if neg: r = z3.Intersect(ANYCHAR, z3.Complement(r))
    return r
def tr1(op, av, flags):
    if op is sre_c.LITERAL: return z3.Re(chr(av))
    if op is sre_c.NOT_LITERAL: return z3.Intersect(ANYCHAR, z3.Complement(z3.Re(chr(av))))
    if op is sre_c.ANY: return z3.Intersect(ANYCHAR, z3.Complement(z3.Re('\n')))
    if op is sre_c.IN: return charset(av)
    if op is sre_c.BRANCH:
        return z3.Union(*[tr(b, flags) for b in av[1]]) if len(av[1])>1 else tr(av[1][0], flags)
    if op is sre_c.SUBPATTERN: return tr(av[3], flags)
    if op in (sre_c.MAX_REPEAT, sre_c.MIN_REPEAT):
        lo, hi, sub = av; r = tr(sub, flags)
        if hi is sre_c.MAXREPEAT:
            return z3.Star(r) if lo==0 else (z3.Plus(r) if lo==1 else z3.Concat(*([r]*lo+[z3.Star(r)])))
        if (lo,hi)==(0,1): return z3.Option(r)
        return z3.Loop(r, lo, hi)
    if op is sre_c.AT:
        raise ValueError('AT inside')
    raise NotImplementedError(op)

def match_lang(pat: 're.Pattern'):
    """Language of strings s with pat.match(s) != None, assuming s has no newline:
    split top-level on ^/$ anchors."""
    p = sre_parse.parse(pat.pattern, pat.flags)
    items = list(p)
    # strip leading AT_BEGINNING
    if items and items[0][0] is sre_c.AT and items[0][1] in (sre_c.AT_BEGINNING, sre_c.AT_BEGINNING_STRING): items = items[1:]
    anchored_end = False
    if items and items[-1][0] is sre_c.AT and items[-1][1] in (sre_c.AT_END, sre_c.AT_END_STRING):
        anchored_end = True; items = items[:-1]
    body = tr(items, pat.flags)
    return body if anchored_end else z3.Concat(body, z3.Star(ANYCHAR)), anchored_end

def resolve_expr(table, s):
    """z3 term: tag chosen by Resolver.resolve for a plain scalar s (implicit[0])"""
    TAGS = sorted({t for rs in table.values() for t,_ in rs} | {'tag:yaml.org,2002:str'})
    idx = {t:i for i,t in enumerate(TAGS)}
    STR = z3.IntVal(idx['tag:yaml.org,2002:str'])
    def chain(rs):
        e = STR
        for tag, rx in reversed(rs):
            lang, _ = match_lang(rx)
            e = z3.If(z3.InRe(s, lang), z3.IntVal(idx[tag]), e)
        return e
    wild = table.get(None, [])
    e = chain(wild)   # default: when first char has no bucket
    first = z3.SubString(s, 0, 1)
    res = e
    for ch, rs in table.items():
        if ch is None: continue
        if ch == '':
            res = z3.If(z3.Length(s)==0, chain(rs+wild), res)
        else:
            res = z3.If(z3.And(z3.Length(s)>0, first == z3.StringVal(ch)), chain(rs+wild), res)
    return res, idx

L = yatiml.load_function().loader('')
table = L.yaml_implicit_resolvers
s = z3.String('s')
pat, idx = resolve_expr(table, s)
stock, idx2 = resolve_expr(yaml.SafeDumper.yaml_implicit_resolvers, s)
D = cls_range(48,57)
opt = z3.Option
sign = opt(z3.Union(z3.Re('-'), z3.Re('+')))
exp = z3.Concat(z3.Union(z3.Re('e'),z3.Re('E')), sign, z3.Plus(D))
num12 = z3.Concat(sign, z3.Union(z3.Concat(z3.Re('.'), z3.Plus(D)), z3.Concat(z3.Plus(D), opt(z3.Concat(z3.Re('.'), z3.Star(D))))), opt(exp))
intlike = z3.Concat(sign, z3.Plus(D))
spec_float = z3.Union(z3.Intersect(num12, z3.Complement(intlike)),
    z3.Concat(sign, z3.Union(*[z3.Re(x) for x in ('.inf','.Inf','.INF')])),
    z3.Union(*[z3.Re(x) for x in ('.nan','.NaN','.NAN')]))
spec_bool = z3.Union(*[z3.Re(x) for x in ('true','True','TRUE','false','False','FALSE')])
nonl = z3.Not(z3.Contains(s, z3.StringVal('\n')))
def q(name, *cons):
    so = z3.Solver(); so.set('timeout', 60000); so.add(nonl, *cons)
    t=time.time(); r = so.check(); dt=time.time()-t
    print(name, r, '%.2fs'%dt, (repr(so.model()[s]) if str(r)=='sat' else ''))
F = idx['tag:yaml.org,2002:float']; B = idx['tag:yaml.org,2002:bool']
q('float-sound  (resolves float but not 1.2 float)', pat==F, z3.Not(z3.InRe(s, spec_float)))
q('float-complete (1.2 float but not resolved float)', pat!=F, z3.InRe(s, spec_float))
q('bool-sound', pat==B, z3.Not(z3.InRe(s, spec_bool)))
q('bool-complete', pat!=B, z3.InRe(s, spec_bool))
S2 = idx2['tag:yaml.org,2002:str']; S1 = idx['tag:yaml.org,2002:str']
q('dump/load agreement: dumper says str, loader says non-str', stock==S2, pat!=S1)

print('--- simulate fix: anchor patterns')
fixed = {}
for ch, rs in table.items():
    fixed[ch] = [(t, re.compile(rx.pattern[:-1] + ')$', rx.flags) if t in ('tag:yaml.org,2002:float','tag:yaml.org,2002:bool') else rx) for t, rx in rs]
pat, idx = resolve_expr(fixed, s)
F = idx['tag:yaml.org,2002:float']; B = idx['tag:yaml.org,2002:bool']; S1 = idx['tag:yaml.org,2002:str']
q('float-sound', pat==F, z3.Not(z3.InRe(s, spec_float)))
q('float-complete', pat!=F, z3.InRe(s, spec_float))
q('bool-sound', pat==B, z3.Not(z3.InRe(s, spec_bool)))
q('bool-complete', pat!=B, z3.InRe(s, spec_bool))
q('dump/load agreement', stock==S2, pat!=S1)
# others unchanged wrt stock loader table
stockL, idxL = resolve_expr(yaml.SafeLoader.yaml_implicit_resolvers, s)
for t in ('int','null','timestamp','merge','value'):
    tt='tag:yaml.org,2002:'+t
    q('same-'+t, z3.Xor(pat==idx[tt], stockL==idxL[tt]))
