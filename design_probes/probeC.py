"""Probe C: full load path with selector-driven palettes; measure paths/s."""
from typing import List, Dict, Union, Optional, Any
import yaml
from yaml.error import Mark
import yatiml, yatiml.util

yaml.nodes.Node.__ch_deep_realize__ = lambda self, memo: "N"
yatiml.util.get_close_matches = lambda *a, **k: []     # message-formatting stub

class Sub:
    def __init__(self, x: int) -> None:
        self.x = x

class Doc:
    def __init__(self, a: int, b: Optional[str] = None, c: Optional[Sub] = None) -> None:
        self.a = a; self.b = b; self.c = c

_load = yatiml.load_function(Doc, Sub)
_TREE = [None]
yaml.composer.Composer.get_single_node = lambda self: _TREE[0]

def mk(line): return Mark('doc', line, line, 0, None, 0)
KEYS = ['a', 'b', 'c', 'zz']
P = 'tag:yaml.org,2002:'
TAGS = [P+'str', P+'int', P+'float', P+'bool', P+'null', P+'timestamp', P+'map', P+'seq', '!Sub', '!Doc', '!Zz', P+'python/object/apply:os.system']
VALS = ['1', 'abc', 'true', '', '1.5']
S = P+'str'

def load_doc(n: int, k1: int, t1: int, v1: int, k2: int, t2: int, v2: int) -> bool:
    """
    pre: 0 <= n <= 2
    pre: 0 <= k1 < 4 and 0 <= k2 < 4 and 0 <= t1 < 12 and 0 <= t2 < 12 and 0 <= v1 < 5 and 0 <= v2 < 5
    pre: n < 2 or (k2 == 1 and t2 < 2)
    post: __return__
    """
    items = []
    if n >= 1:
        items.append((yaml.ScalarNode(S, KEYS[k1], mk(1), mk(1)), yaml.ScalarNode(TAGS[t1], VALS[v1], mk(1), mk(1))))
    if n >= 2:
        items.append((yaml.ScalarNode(S, KEYS[k2], mk(2), mk(2)), yaml.ScalarNode(TAGS[t2], VALS[v2], mk(2), mk(2))))
    _TREE[0] = yaml.MappingNode('tag:yaml.org,2002:map', items, mk(0), mk(3))
    try:
        r = _load('')
    except (yatiml.RecognitionError, yaml.YAMLError, yatiml.SeasoningError, ValueError, KeyError, IndexError, AttributeError):
        return True
    if type(r) is not Doc: return False
    if type(r.a) is not int: return False
    if r.b is not None and type(r.b) is not str: return False
    if r.c is not None: return False
    return True
