"""Probe: full load path with stubbed composer, symbolic node tree."""
from typing import List, Dict, Union, Optional, Any
import yaml
from yaml.error import Mark
import yatiml

yaml.nodes.Node.__ch_deep_realize__ = lambda self, memo: "N"

class Sub:
    def __init__(self, x: int) -> None:
        self.x = x

class Doc:
    def __init__(self, a: int, b: Optional[str] = None, c: Optional[Sub] = None) -> None:
        self.a = a; self.b = b; self.c = c

_load = yatiml.load_function(Doc, Sub)

_TREE = [None]
def _stub_get_single_node(self):
    return _TREE[0]
yaml.composer.Composer.get_single_node = _stub_get_single_node

def mk(line):
    return Mark('doc', line, line, 0, None, 0)

def conforms(v, t) -> bool:
    if t is int: return type(v) is int
    if t is str: return type(v) is str
    return False

def load_doc(k1: str, t1: str, v1: str, k2: str, t2: str, v2: str, n: int) -> bool:
    """
    pre: 0 <= n <= 2
    pre: len(v1) <= 2 and len(v2) <= 2
    post: __return__
    """
    items = []
    if n >= 1:
        items.append((yaml.ScalarNode('tag:yaml.org,2002:str', k1, mk(1), mk(1)), yaml.ScalarNode(t1, v1, mk(1), mk(1))))
    if n >= 2:
        items.append((yaml.ScalarNode('tag:yaml.org,2002:str', k2, mk(2), mk(2)), yaml.ScalarNode(t2, v2, mk(2), mk(2))))
    _TREE[0] = yaml.MappingNode('tag:yaml.org,2002:map', items, mk(0), mk(3))
    try:
        r = _load('')
    except (yatiml.RecognitionError, yaml.YAMLError):
        return True
    if type(r) is not Doc: return False
    if type(r.a) is not int: return False
    if r.b is not None and type(r.b) is not str: return False
    if r.c is not None: return False
    return True
