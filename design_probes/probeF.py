"""Probe F: JSON dump via public API with pure-Python sink; symbolic leaves."""
from typing import List, Dict, Union, Optional, Any
import yaml, yatiml

class Sink:
    def __init__(self): self.parts = []
    def write(self, s): self.parts.append(s)
    def flush(self): pass
    def text(self): return ''.join(self.parts)

_dump = yatiml.dump_json_function()

def ref(o, indent, level=0):
    nl = '' if indent is None else '\n' + ' ' * (indent * (level + 1))
    nl_end = '' if indent is None else '\n' + ' ' * (indent * level)
    kv = ':' if indent is None else ': '
    if o is None: return 'null'
    if o is True: return 'true'
    if o is False: return 'false'
    if isinstance(o, int): return str(o)
    if isinstance(o, list):
        return '[' + nl + (',' + nl).join(ref(x, indent, level + 1) for x in o) + nl_end + ']'
    if isinstance(o, dict):
        return '{' + nl + (',' + nl).join('"' + k + '"' + kv + ref(v, indent, level + 1) for k, v in o.items()) + nl_end + '}'
    raise TypeError

def j1(a: int, b: bool, n: int, shape: int, use_indent: bool, indent: int) -> bool:
    """
    pre: 0 <= n <= 2 and 0 <= shape < 4 and 0 <= indent <= 8
    post: __return__
    """
    leafs = [a, b, None][:n]
    if shape == 0: obj = leafs
    elif shape == 1: obj = {'k%d' % i: v for i, v in enumerate(leafs)}
    elif shape == 2: obj = [list(leafs), {'x': list(leafs)}]
    else: obj = {'p': {'q': leafs}, 'r': []}
    ind = indent if use_indent else None
    eff = None if ind is None else (ind if 1 < ind < 10 else 2)
    s = Sink()
    _dump(obj, s, indent=ind)
    want = ref(obj, eff) + ('' if ind is None else '\n')
    return s.text() == want
