"""Probe B: full load path, stubbed composer + formatting stubs + scalar-ctor stubs; free tags/values, selector keys."""
from typing import List, Dict, Union, Optional, Any
import yaml
from yaml.error import Mark
import yatiml, yatiml.util

yaml.nodes.Node.__ch_deep_realize__ = lambda self, memo: "N"
yatiml.util.get_close_matches = lambda *a, **k: []     # message-formatting stub

class Sub:
    def __init__(self, x: int) -> None:
        self.x = x

class Doc:
    def __init__(self, a: int, b: Optional[str] = None, c: Optional[Sub] = None) -> None:
        self.a = a; self.b = b; self.c = c

_load = yatiml.load_function(Doc, Sub)
LC = _load.loader
# scalar constructor contract stubs (PyYAML's): return a value of the type
LC.add_constructor('tag:yaml.org,2002:int', lambda l, n: 7)
LC.add_constructor('tag:yaml.org,2002:float', lambda l, n: 7.5)
LC.add_constructor('tag:yaml.org,2002:bool', lambda l, n: True)
LC.add_constructor('tag:yaml.org,2002:timestamp', lambda l, n: None)

_TREE = [None]
yaml.composer.Composer.get_single_node = lambda self: _TREE[0]

def mk(line): return Mark('doc', line, line, 0, None, 0)
KEYS = ['a', 'b', 'c', 'zz']
S = 'tag:yaml.org,2002:str'

def load_doc(n: int, k1: int, t1: str, v1: str, k2: int, t2: str, v2: str) -> bool:
    """
    pre: 0 <= n <= 2
    pre: 0 <= k1 < 4 and 0 <= k2 < 4
    post: __return__
    """
    items = []
    if n >= 1:
        items.append((yaml.ScalarNode(S, KEYS[k1], mk(1), mk(1)), yaml.ScalarNode(t1, v1, mk(1), mk(1))))
    if n >= 2:
        items.append((yaml.ScalarNode(S, KEYS[k2], mk(2), mk(2)), yaml.ScalarNode(t2, v2, mk(2), mk(2))))
    _TREE[0] = yaml.MappingNode('tag:yaml.org,2002:map', items, mk(0), mk(3))
    try:
        r = _load('')
    except (yatiml.RecognitionError, yaml.YAMLError):
        return True
    if type(r) is not Doc: return False
    if type(r.a) is not int: return False
    if r.b is not None and type(r.b) is not str: return False
    if r.c is not None: return False
    return True
