"""Probe: CrossHair on Recognizer.recognize with symbolic scalar tag/value."""
from typing import List, Dict, Union, Optional, Any
import yaml
from yaml.error import Mark
import yatiml
from yatiml.recognizer import Recognizer
from yatiml.util import scalar_type_to_tag

yaml.nodes.Node.__ch_deep_realize__ = lambda self, memo: "N"

M = Mark('x', 0, 1, 1, None, 0)

TAGS = {str: 'tag:yaml.org,2002:str', int: 'tag:yaml.org,2002:int'}

def rec_scalar(tag: str, value: str, which: int) -> bool:
    """
    pre: 0 <= which < 5
    post: __return__ == (tag == ['tag:yaml.org,2002:str','tag:yaml.org,2002:int','tag:yaml.org,2002:float','tag:yaml.org,2002:bool','tag:yaml.org,2002:null'][which])
    """
    typ = [str, int, float, bool, type(None)][which]
    node = yaml.ScalarNode(tag, value, M, M)
    r = Recognizer({}, {})
    types, _ = r.recognize(node, typ)
    return len(types) == 1

def rec_list(tags: List[str]) -> bool:
    """
    pre: len(tags) <= 3
    post: __return__ == all(t == 'tag:yaml.org,2002:int' for t in tags)
    """
    items = [yaml.ScalarNode(t, 'v', M, M) for t in tags]
    node = yaml.SequenceNode('tag:yaml.org,2002:seq', items, M, M)
    r = Recognizer({}, {})
    types, _ = r.recognize(node, List[int])
    return len(types) == 1
