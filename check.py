#!/usr/bin/env python3
"""Entry point of every check registered in MANIFEST.json.

    python3 check.py <C01..C18> <quick|thorough>
    python3 check.py --replay <evidence/replays/xxx.json>

exit 0 = held on everything explored (inconclusive conditions are listed and
not counted as held); exit 1 + `VIOLATION property=<id> replay=<path>` = a
solver counterexample that reproduces on the unstubbed real code and is not a
listed known finding; exit 3 = harness error (never a VIOLATION line).
"""
import json
import os
import sys

VERIF = os.path.dirname(os.path.abspath(__file__))
sys.path.insert(0, VERIF)
from vlib import engine  # noqa: E402

E1 = {
    'C01': 'harness.c01_conform',
    'C02': 'harness.c02_accepts',
    'C03': 'harness.c03_polymorph',
    'C04': 'harness.c04_noconstruct',
    'C05': 'harness.c05_roundtrip',
    'C06': 'harness.c06_dumps',
    'C07': 'harness.c07_json',
    'C08': 'harness.c08_errors',
    'C09': 'harness.c09_resolver',
    'C10': 'harness.c10_hooks',
    'C11': 'harness.c11_stateless',
    'C12': 'harness.c12_io',
    'C13': 'harness.c13_invariance',
    'C14': 'harness.c14_node',
    'C15': 'harness.c15_seasoning',
    'C16': 'harness.c16_require',
    'C17': 'harness.c17_errors',
    'C18': 'harness.c18_alias',
}
E2 = {
}


def main(argv):
    if len(argv) >= 2 and argv[0] == '--replay':
        rec = json.load(open(argv[1]))
        rep, info = engine.replay(rec['module'], rec['function'], rec['args'],
                                  rec.get('slice'), rec.get('exclude', ()))
        print(json.dumps(info, indent=1))
        print('reproduced' if rep else 'NOT reproduced')
        return 1 if rep else 0
    if len(argv) < 1:
        print(__doc__)
        return 2
    prop = argv[0]
    tier = argv[1] if len(argv) > 1 else os.environ.get('VERIF_TIER', 'quick')
    if prop in E2:
        import importlib
        return importlib.import_module(E2[prop]).run(prop, tier)
    if prop in E1:
        return engine.run_e1_property(prop, tier, E1[prop])
    print('unknown property', prop)
    return 2


if __name__ == '__main__':
    try:
        rc = main(sys.argv[1:])
    except Exception as e:   # noqa -- never exit 1 without a VIOLATION line
        import traceback
        traceback.print_exc()
        print('HARNESS-ERROR: %s: %s' % (type(e).__name__, str(e)[-2000:]))
        rc = 3
    sys.exit(rc)
