"""Run one harness function concretely (no CrossHair, no stubs) on given args.

    python -m vlib.replay <module> <function> '<json args dict>'

Prints `REPLAY {json}` with reproduced = the function returned False or
raised.  The harness records a human-readable description of the scenario
(yaml text, outcome, expectation) in vlib.common.LAST.
"""
import importlib
import json
import os
import sys
import traceback


def main() -> int:
    os.environ['VERIF_MODE'] = 'replay'
    modname, fname, args = sys.argv[1], sys.argv[2], json.loads(sys.argv[3])
    from vlib import common
    mod = importlib.import_module(modname)
    fn = getattr(mod, fname)
    info = {'module': modname, 'function': fname, 'args': args}
    try:
        ret = fn(**args) if isinstance(args, dict) else fn(*args)
        info['returned'] = repr(ret)
        info['reproduced'] = (ret is False)
        pre = getattr(mod, 'PRECONDITION_FAILED', None)
        if ret is pre and pre is not None:
            info['reproduced'] = False
    except common.HarnessError as e:
        info['reproduced'] = None
        info['harness_error'] = str(e)[:3000]
    except BaseException as e:  # noqa
        info['reproduced'] = True
        info['raised'] = '%s: %s' % (type(e).__name__, str(e)[:1500])
        info['traceback'] = traceback.format_exc()[-2500:]
    info['last'] = dict(common.LAST)
    print('REPLAY ' + json.dumps(info, default=str))
    return 0


if __name__ == '__main__':
    sys.exit(main())
