"""Run ONE CrossHair condition (one harness function) in this process.

Invoked by vlib.engine as a subprocess of the overlay interpreter:

    python -m vlib.worker <harness module> <function> <out.json>

Environment: VERIF_TIMEOUT (CPU seconds for the condition), VERIF_PATH_TIMEOUT,
VERIF_SLICE (int, read by the harness module), VERIF_EXCLUDE (comma separated
region names, read by the harness module), VERIF_MODE=symbolic.

Writes a JSON record: verdict CONFIRMED / REFUTED / UNKNOWN / PRE_UNSAT /
ERROR, CrossHair's message, the realised counterexample arguments, number of
paths explored, confirmed paths, SMT queries and solver seconds.
"""
import collections
import importlib
import json
import os
import sys
import time
import traceback


def main() -> int:
    modname, fname, out = sys.argv[1:4]
    timeout = float(os.environ.get('VERIF_TIMEOUT', '60'))
    path_timeout = float(os.environ.get('VERIF_PATH_TIMEOUT', '0') or 0)
    os.environ['VERIF_MODE'] = 'symbolic'
    rec = {'module': modname, 'function': fname, 'verdict': 'ERROR',
           'message': '', 'args': None, 'paths': 0, 'confirmed_paths': 0,
           'smt_queries': 0, 'solver_s': 0.0, 'cpu_s': 0.0,
           'slice': os.environ.get('VERIF_SLICE', ''),
           'exclude': os.environ.get('VERIF_EXCLUDE', ''),
           'timeout': timeout}
    t0 = time.process_time()
    try:
        import crosshair.core as core
        import crosshair.statespace as statespace
        from crosshair.core_and_libs import analyze_function, run_checkables
        from crosshair.options import AnalysisOptionSet
        from crosshair.statespace import MessageType

        # (DESIGN 1.5) no short-circuiting of calls: it only adds UNKNOWN leaves
        core.consider_shortcircuit = lambda *a, **k: None

        # count solver work at CrossHair's single choke point
        orig_sat = statespace.solver_is_sat
        smt = {'n': 0, 't': 0.0}

        def counted_sat(solver, *exprs):
            s = time.perf_counter()
            try:
                return orig_sat(solver, *exprs)
            finally:
                smt['n'] += 1
                smt['t'] += time.perf_counter() - s
        statespace.solver_is_sat = counted_sat

        # capture the realised counterexample arguments structurally
        captured = []
        orig_msg = core.make_counterexample_message

        def capturing(conditions, args, return_val=None):
            text = orig_msg(conditions, args, return_val)
            try:
                from crosshair.core import deep_realize
                from crosshair.tracers import NoTracing
                real = deep_realize(dict(args.arguments))
                with NoTracing():
                    captured.append(json.loads(json.dumps(real)))
            except BaseException as e:  # noqa
                captured.append({'__unserialisable__': repr(e)})
            return text
        core.make_counterexample_message = capturing

        mod = importlib.import_module(modname)
        fn = getattr(mod, fname)
        stats = collections.Counter()
        kw = dict(per_condition_timeout=timeout, report_all=True,
                  max_uninteresting_iterations=sys.maxsize, stats=stats)
        if path_timeout > 0:
            kw['per_path_timeout'] = path_timeout
        opts = AnalysisOptionSet(**kw)
        checkables = list(analyze_function(fn, opts))
        if not checkables:
            rec['message'] = 'no conditions found on %s' % fname
        else:
            msgs = run_checkables(checkables)
            rec['paths'] = int(stats.get('num_paths', 0))
            rec['smt_queries'] = smt['n']
            rec['solver_s'] = round(smt['t'], 3)
            states = [m.state for m in msgs]
            rec['message'] = ' | '.join(
                '%s: %s' % (m.state.name, m.message) for m in msgs)[:4000]
            bad = [m for m in msgs if m.state in (
                MessageType.POST_FAIL, MessageType.EXEC_ERR,
                MessageType.POST_ERR)]
            if bad:
                rec['verdict'] = 'REFUTED'
                rec['args'] = captured[-1] if captured else None
                rec['traceback'] = (bad[0].traceback or '')[-3000:]
            elif any(s == MessageType.PRE_UNSAT for s in states):
                rec['verdict'] = 'PRE_UNSAT'
            elif any(s in (MessageType.SYNTAX_ERR, MessageType.IMPORT_ERR)
                     for s in states):
                rec['verdict'] = 'ERROR'
            elif states and all(s == MessageType.CONFIRMED for s in states):
                rec['verdict'] = 'CONFIRMED'
            else:
                rec['verdict'] = 'UNKNOWN'
    except BaseException:
        rec['verdict'] = 'ERROR'
        rec['message'] = traceback.format_exc()[-4000:]
    rec['cpu_s'] = round(time.process_time() - t0, 2)
    with open(out, 'w') as f:
        json.dump(rec, f)
    return 0


if __name__ == '__main__':
    sys.exit(main())
