"""The class-model zoo (DESIGN 2.1): small self-instrumenting class models,
each isolating features named in the properties' quantifiers.  Every
__init__ and hook appends to TRACE; that is how constructor arguments and
calling protocols are observed without hooks in /repo.
"""
import abc
import datetime
import enum
import pathlib
from collections import OrderedDict, UserString
from typing import (Any, Dict, List, Mapping, MutableMapping,
                    MutableSequence, Optional, Sequence, Union)

import yatiml

TRACE = []


def T(self, loc) -> None:
    TRACE.append(('init', type(self), {
        k: v for k, v in loc.items() if k not in ('self', '__class__')}))


def reset() -> None:
    del TRACE[:]


# ------------------------------------------------------------- M0 plain
class Sub:
    def __init__(self, x: int) -> None:
        T(self, locals())
        self.x = x


class Doc:
    def __init__(self, a: int, b: str, c: float = 1.0,
                 d: Optional[bool] = None,
                 e: Optional[Sub] = None, f: int = 0) -> None:
        T(self, locals())
        self.a, self.b, self.c, self.d, self.e, self.f = a, b, c, d, e, f


# --------------------------------------------- M1 permissive recogniser
class Perm:
    """Accepts every node at recognition; the constructor's own type check
    must hold the line."""
    def __init__(self, a: int, b: List[str], c: Optional[Sub] = None,
                 f: int = 0) -> None:
        T(self, locals())
        self.a, self.b, self.c, self.f = a, b, c, f

    @classmethod
    def _yatiml_recognize(cls, node: yatiml.UnknownNode) -> None:
        TRACE.append(('recognize', cls))


class PermHolder:
    def __init__(self, p: Perm, q: Union[Perm, int] = 0) -> None:
        T(self, locals())
        self.p, self.q = p, q


# ------------------------------------------------- M2 rewriting savorize
class Sav:
    """_yatiml_savorize copies raw sub-nodes around, may replace the mapping
    by a scalar and may add an unknown key -- all driven by the document."""
    def __init__(self, a: int, b: str = 'q', s: Optional[Sub] = None) -> None:
        T(self, locals())
        self.a, self.b, self.s = a, b, s

    @classmethod
    def _yatiml_savorize(cls, node: yatiml.Node) -> None:
        TRACE.append(('savorize', cls))
        if node.has_attribute('aa'):            # wrongly typed attribute
            node.set_attribute('a', node.get_attribute('aa').yaml_node)
            node.remove_attribute('aa')
        if node.has_attribute('ss'):
            node.set_attribute('s', node.get_attribute('ss').yaml_node)
            node.remove_attribute('ss')
        if node.has_attribute('scalarize'):     # wrong node kind
            node.set_value('oops')
            return
        if node.has_attribute('addunk'):        # unknown key
            node.remove_attribute('addunk')
            node.set_attribute('zz', 1)
        if node.has_attribute('boom'):
            raise yatiml.SeasoningError('boom requested')
        if node.has_attribute('boom2'):
            raise yatiml.SeasoningError()
        if node.has_attribute('boom3'):
            raise ValueError('not a SeasoningError')
        if node.has_attribute('boom4'):
            raise KeyError('x')


# ------------------------------------------------ M3 unions / optionals
class Uni:
    def __init__(self, a: Union[int, str], b: Optional[float] = None,
                 c: Union[int, bool, yatiml.bool_union_fix] = 0,
                 d: Union[Sub, List[int], None] = None,
                 e: Union[bool, 'Color', None] = None) -> None:
        T(self, locals())
        self.a, self.b, self.c, self.d, self.e = a, b, c, d, e


# ------------------------------------------------------ M4 collections
class Coll:
    def __init__(self, a: List[int], b: Dict[str, float],
                 c: Optional[Sequence[Sub]] = None,
                 d: Optional[Mapping[str, List[bool]]] = None,
                 e: Optional[MutableSequence[str]] = None,
                 f: Optional[MutableMapping[str, Sub]] = None) -> None:
        T(self, locals())
        self.a, self.b, self.c, self.d, self.e, self.f = a, b, c, d, e, f


# ---------------------------------------------------- M5 Any / untyped
class Loose:
    def __init__(self, a: Any, b=None, s: Optional[Sub] = None,
                 _yatiml_extra: Optional[OrderedDict] = None) -> None:
        T(self, locals())
        self.a, self.b, self.s = a, b, s
        self._yatiml_extra = _yatiml_extra


# ------------------------------------------------------- M6 date / path
class When:
    def __init__(self, d: datetime.date, p: pathlib.Path,
                 od: Optional[datetime.date] = None,
                 ps: Optional[List[pathlib.Path]] = None) -> None:
        T(self, locals())
        self.d, self.p, self.od, self.ps = d, p, od, ps


# ------------------------------------------------- M7 enums, string-likes
class Color(enum.Enum):
    red = 1
    green = 2
    true = 3            # a member named like a boolean

    def describe(self) -> str:      # an attribute that is not a member
        return 'colour %s' % self.name


Uni.__init__.__annotations__['e'] = Union[bool, Color, None]


class Ident(str):
    def __new__(cls, s: str):
        if not s.isidentifier():
            raise ValueError('not an identifier: %s' % s)
        return super().__new__(cls, s)


class UStr(UserString):
    def __init__(self, seq: Any) -> None:
        super().__init__(seq)
        TRACE.append(('init', type(self), {}))


class Ver(yatiml.String):
    def __init__(self, s: str) -> None:
        TRACE.append(('init', type(self), {'s': s}))
        parts = s.split('.')
        self.major = int(parts[0])      # ValueError / IndexError on junk
        self.minor = int(parts[1])

    def __str__(self) -> str:
        return '%d.%d' % (self.major, self.minor)

    def __eq__(self, o: Any) -> bool:
        return isinstance(o, Ver) and str(o) == str(self)

    def __hash__(self) -> int:
        return hash(str(self))


class Styled:
    def __init__(self, col: Color, name: Ident,
                 u: Optional[UStr] = None, v: Optional[Ver] = None,
                 cols: Optional[List[Color]] = None,
                 by: Optional[Dict[Ident, int]] = None,
                 cb: Union[Color, bool, None] = None,
                 bu: Optional[Dict[UStr, int]] = None,
                 bv: Optional[Dict[Ver, int]] = None) -> None:
        T(self, locals())
        self.col, self.name, self.u, self.v = col, name, u, v
        self.cols, self.by, self.cb, self.bu, self.bv = cols, by, cb, bu, bv


# ------------------------------------------------------- M8 hierarchy
class Shape(abc.ABC):
    def __init__(self, center: List[float]) -> None:
        T(self, locals())
        self.center = center

    @abc.abstractmethod
    def area(self) -> float: ...


class Circle(Shape):
    def __init__(self, center: List[float], radius: float) -> None:
        super().__init__(center)
        T(self, locals())
        self.radius = radius

    def area(self) -> float:
        return 3.0 * self.radius


class Square(Shape):
    def __init__(self, center: List[float], width: float) -> None:
        super().__init__(center)
        T(self, locals())
        self.width = width

    def area(self) -> float:
        return self.width


class Hidden(Shape):            # never registered
    def __init__(self, center: List[float], secret: int) -> None:
        super().__init__(center)
        T(self, locals())
        self.secret = secret

    def area(self) -> float:
        return 0.0


class Canvas:
    def __init__(self, shapes: List[Shape], main: Optional[Shape] = None
                 ) -> None:
        T(self, locals())
        self.shapes, self.main = shapes, main


# ------------------------------------------------- raising constructors
class Picky:
    def __init__(self, n: int, label: str = 'x', f: int = 0) -> None:
        T(self, locals())
        if n < 0:
            raise ValueError('negative')
        if n == 13:
            raise KeyError('unlucky')
        if n == 14:
            raise ValueError            # no message
        assert n != 15                  # bare AssertionError
        if label == 'boom':
            raise yatiml.SeasoningError('seasoning in __init__')
        self.n, self.label = n, label


# ------------------------------------------------------------ C04 models
class Trap:
    """Registered with the loader, but no typed position of any model admits
    it: its constructor must never run, whatever the document says."""
    def __init__(self, x: int) -> None:
        T(self, locals())
        self.x = x


class Loose2:
    def __init__(self, a: Any, b=None, s: Optional[Sub] = None,
                 l: Optional[List[Any]] = None,           # noqa: E741
                 d: Optional[Dict[str, Any]] = None,
                 t: Optional[Dict[str, Sub]] = None,
                 ts: Optional[List[Sub]] = None,
                 _yatiml_extra: Optional[OrderedDict] = None) -> None:
        T(self, locals())
        self.a, self.b, self.s, self.l, self.d = a, b, s, l, d
        self.t, self.ts = t, ts
        self._yatiml_extra = _yatiml_extra


class TrapSav:
    """Its savorize hook renames keys, so that two spellings of one
    attribute meet only AFTER recognition."""
    def __init__(self, a: Any, b_c: Any = None, n: int = 0) -> None:
        T(self, locals())
        self.a, self.b_c, self.n = a, b_c, n

    @classmethod
    def _yatiml_savorize(cls, node: yatiml.Node) -> None:
        node.dashes_to_unders_in_keys()


class ExtraDef:
    """_yatiml_extra with a default value, after the required parameters."""
    def __init__(self, a: int, b: str,
                 _yatiml_extra: Optional[OrderedDict] = None) -> None:
        T(self, locals())
        self.a, self.b, self._yatiml_extra = a, b, _yatiml_extra


class Alt:
    def __init__(self, a: int) -> None:
        T(self, locals())
        self.a = a


class ExtraHolder:
    def __init__(self, u: Union[ExtraDef, Alt],
                 v: Union[ExtraDef, Alt, None] = None) -> None:
        T(self, locals())
        self.u, self.v = u, v


class Job:
    """Union members that fail with the SAME words at different places."""
    def __init__(self, name: str, retries: Union[int, List[int]] = 0,
                 tags: Union[str, List[str], None] = None,
                 limits: Union[float, Dict[str, float], None] = None
                 ) -> None:
        T(self, locals())
        self.name, self.retries, self.tags = name, retries, tags
        self.limits = limits


class AnyU:
    """Any as a member of a Union / Optional."""
    def __init__(self, a: Optional[Any] = None, b: Union[int, Any] = 0
                 ) -> None:
        T(self, locals())
        self.a, self.b = a, b


class Dashed:
    """Automatically recognised, keys written with dashes in the document
    (recognition accepts either spelling, savorize normalises them)."""
    def __init__(self, max_retries: int, log_level: str = 'info') -> None:
        T(self, locals())
        self.max_retries, self.log_level = max_retries, log_level

    @classmethod
    def _yatiml_savorize(cls, node: yatiml.Node) -> None:
        node.dashes_to_unders_in_keys()


class Copying:
    """A constructor that USES its arguments instead of just storing them:
    they must be complete when it runs (constructors run bottom-up)."""
    def __init__(self, items: List[int], sub: Sub,
                 d: Optional[Dict[str, Sub]] = None) -> None:
        T(self, locals())
        self.items = list(items)
        self.n = len(items)
        self.sx = sub.x
        self.keys = sorted(d) if d is not None else None
        self.dx = [v.x for v in d.values()] if d is not None else None


class V1:
    """Discriminated by the VALUE of an int attribute."""
    def __init__(self, version: int, name: str) -> None:
        T(self, locals())
        self.version, self.name = version, name

    @classmethod
    def _yatiml_recognize(cls, node: yatiml.UnknownNode) -> None:
        node.require_attribute_value('version', 1)


class V2:
    def __init__(self, version: int, title: str, factor: float) -> None:
        T(self, locals())
        self.version, self.title, self.factor = version, title, factor

    @classmethod
    def _yatiml_recognize(cls, node: yatiml.UnknownNode) -> None:
        node.require_attribute_value_not('version', 1)
        node.require_attribute('title', str)
        node.require_attribute_value_not('factor', 0.0)


class Holder:
    def __init__(self, s: Sub, ss: Optional[List[Sub]] = None,
                 u: Union[Sub, int, None] = None) -> None:
        T(self, locals())
        self.s, self.ss, self.u = s, ss, u


# ------------------------------------------------ C13: model variants
class Unrel1:
    def __init__(self, qq: int) -> None:
        T(self, locals())
        self.qq = qq


class Unrel2:
    def __init__(self, ww: str, opt: int = 0) -> None:
        T(self, locals())
        self.ww, self.opt = ww, opt


class UnrelEnum(enum.Enum):
    one = 1
    two = 2


def make_coll(variant: int):
    """The Coll model with List/Dict (0), Sequence/Mapping (1) or
    MutableSequence/MutableMapping (2) in every annotation."""
    S_ = [List, Sequence, MutableSequence][variant]
    M_ = [Dict, Mapping, MutableMapping][variant]

    class Sub:
        def __init__(self, x: int) -> None:
            self.x = x

    class Coll:
        def __init__(self, a: S_[int], b: M_[str, float],        # type: ignore
                     c: Optional[S_[Sub]] = None,                # type: ignore
                     d: Optional[M_[str, S_[bool]]] = None,      # type: ignore
                     e: Optional[S_[str]] = None,                # type: ignore
                     f: Optional[M_[str, Sub]] = None) -> None:  # type: ignore
            self.a, self.b, self.c, self.d, self.e, self.f = a, b, c, d, e, f
    return Coll, Sub


def make_uni(fix: int):
    """The Uni model without bool_union_fix (0), with it at the end of the
    Unions that contain bool (1), or with it right after bool, in front of
    the other members (2)."""
    class Sub:
        def __init__(self, x: int) -> None:
            self.x = x
    if fix == 2:
        CT = Union[bool, yatiml.bool_union_fix, int]
        DT = Union[bool, yatiml.bool_union_fix, Sub, List[int], None]
        ET = Union[bool, yatiml.bool_union_fix, Color, None]
    elif fix:
        CT = Union[int, bool, yatiml.bool_union_fix]
        DT = Union[bool, Sub, List[int], None, yatiml.bool_union_fix]
        ET = Union[bool, Color, None, yatiml.bool_union_fix]
    else:
        CT = Union[int, bool]
        DT = Union[bool, Sub, List[int], None]
        ET = Union[bool, Color, None]

    class Uni:
        def __init__(self, a: Union[int, str], b: Optional[float] = None,
                     c: CT = 0, d: DT = None,                    # type: ignore
                     e: ET = None) -> None:                      # type: ignore
            self.a, self.b, self.c, self.d, self.e = a, b, c, d, e
    return Uni, Sub, Color


# ------------------------------------- C02: declarative seasoning, dashes
class Item:
    def __init__(self, item_id: str, price: float,
                 description: Optional[str] = None) -> None:
        T(self, locals())
        self.item_id, self.price, self.description = (
            item_id, price, description)


class Order:
    def __init__(self, customer_name: str, items: List[Item],
                 note: str = 'none', rush: bool = False,
                 _yatiml_extra: Optional[OrderedDict] = None) -> None:
        T(self, locals())
        self.customer_name, self.items = customer_name, items
        self.note, self.rush = note, rush
        self._yatiml_extra = _yatiml_extra

    @classmethod
    def _yatiml_recognize(cls, node: yatiml.UnknownNode) -> None:
        # the seasoned form is not what the signature says (docs:
        # "Customising recognition")
        node.require_mapping()

    @classmethod
    def _yatiml_savorize(cls, node: yatiml.Node) -> None:
        node.dashes_to_unders_in_keys()
        node.map_attribute_to_seq('items', 'item_id', 'price')


# ------------------------------------------------------- C03 hierarchies
class HA:
    def __init__(self, a: int) -> None:
        T(self, locals())
        self.a = a


class HB(HA, abc.ABC):                  # abstract middle
    def __init__(self, a: int, b: int) -> None:
        super().__init__(a)
        self.b = b


class HC(HB):
    def __init__(self, a: int, b: int, c: int) -> None:
        super().__init__(a, b)
        T(self, locals())
        self.c = c


class UA:
    def __init__(self, a: int) -> None:
        T(self, locals())
        self.a = a


class UMid(UA):                         # never registered
    def __init__(self, a: int, m: int = 0) -> None:
        super().__init__(a)
        self.m = m


class UC(UMid):                         # registered, but its base is not
    def __init__(self, a: int, c: int) -> None:
        super().__init__(a)
        T(self, locals())
        self.c = c


class Ellipse(Shape):
    def __init__(self, center: List[float], radius: float,
                 ratio: float = 1.0) -> None:
        super().__init__(center)
        T(self, locals())
        self.radius, self.ratio = radius, ratio

    def area(self) -> float:
        return self.radius * self.ratio


class DA:
    def __init__(self, a: int) -> None:
        T(self, locals())
        self.a = a


class DB(DA):
    def __init__(self, a: int, b: int) -> None:
        super().__init__(a)
        self.b = b


class DC(DA):
    def __init__(self, a: int, c: int) -> None:
        super().__init__(a)
        self.c = c


class DD(DB, DC):                       # diamond
    def __init__(self, a: int, b: int, c: int) -> None:
        DA.__init__(self, a)
        T(self, locals())
        self.b, self.c = b, c


class KBase:
    def __init__(self, kind: str, v: int) -> None:
        T(self, locals())
        self.kind, self.v = kind, v


class K1(KBase):
    @classmethod
    def _yatiml_recognize(cls, node: yatiml.UnknownNode) -> None:
        node.require_attribute_value('kind', 'k1')


class K2(KBase):
    @classmethod
    def _yatiml_recognize(cls, node: yatiml.UnknownNode) -> None:
        node.require_attribute_value('kind', 'k2')
        node.require_attribute('v', int)


# ------------------------------------ C18: same content, different types
class Typed:
    def __init__(self, paths: List[pathlib.Path], names: List[str],
                 idents: Optional[List[Ident]] = None,
                 m1: Optional[Dict[str, pathlib.Path]] = None,
                 m2: Optional[Dict[str, str]] = None,
                 anyv: Any = None) -> None:
        T(self, locals())
        self.paths, self.names, self.idents = paths, names, idents
        self.m1, self.m2, self.anyv = m1, m2, anyv


# ------------------- C03: custom recogniser above auto-recognised subclasses
class RBase:
    def __init__(self, name: str) -> None:
        T(self, locals())
        self.name = name

    @classmethod
    def _yatiml_recognize(cls, node: yatiml.UnknownNode) -> None:
        node.require_attribute('name', str)


class RSub(RBase):
    def __init__(self, name: str, limit: int) -> None:
        super().__init__(name)
        self.limit = limit


class RSubSub(RSub):
    def __init__(self, name: str, limit: int, extra: int) -> None:
        super().__init__(name, limit)
        self.extra = extra


class Other:
    """Matches what Circle and Ellipse match, outside their hierarchy."""
    def __init__(self, center: List[float], radius: float) -> None:
        T(self, locals())
        self.center, self.radius = center, radius


# ------------------------------------ C17: several required keys, nested
class Req4:
    def __init__(self, a: int, b: int, c: int, d: int, e: int = 0) -> None:
        T(self, locals())
        self.a, self.b, self.c, self.d, self.e = a, b, c, d, e


class Outer4:
    def __init__(self, first: int, r: Req4, last: int) -> None:
        T(self, locals())
        self.first, self.r, self.last = first, r, last


# --------------- C02: an index (map_attribute_to_index) with a string-like key
class Staff:
    def __init__(self, name: Ident, role: str, hours: int = 40) -> None:
        T(self, locals())
        self.name, self.role, self.hours = name, role, hours


class Firm:
    def __init__(self, employees: Dict[str, Staff]) -> None:
        T(self, locals())
        self.employees = employees

    @classmethod
    def _yatiml_recognize(cls, node: yatiml.UnknownNode) -> None:
        node.require_attribute('employees')

    @classmethod
    def _yatiml_savorize(cls, node: yatiml.Node) -> None:
        node.map_attribute_to_index('employees', 'name', 'role')


# ------------------------------------- ambiguous subclasses (C17 weak claim)
class AmbB:
    def __init__(self, a: int) -> None:
        T(self, locals())
        self.a = a


class AmbS1(AmbB):
    def __init__(self, a: int, x: int = 0) -> None:
        T(self, locals())
        super().__init__(a)
        self.x = x


class AmbS2(AmbB):
    def __init__(self, a: int, y: int = 0) -> None:
        T(self, locals())
        super().__init__(a)
        self.y = y


class AmbHolder:
    """Without `x` or `y` the value of b matches both subclasses."""
    def __init__(self, b: AmbB, n: int = 0,
                 bs: Optional[List[AmbB]] = None) -> None:
        T(self, locals())
        self.b, self.n, self.bs = b, n, bs


# --------------------- underscore parameters, dashed keys, NO savorize hook
class Under:
    def __init__(self, a: int, b_c: int = 0,
                 l_s: Optional[List[int]] = None) -> None:
        T(self, locals())
        self.a, self.b_c, self.l_s = a, b_c, l_s


class UnderPerm:
    """As Under, with a recogniser that does not look at the attributes."""
    def __init__(self, a: int, b_c: int = 0,
                 l_s: Optional[List[int]] = None) -> None:
        T(self, locals())
        self.a, self.b_c, self.l_s = a, b_c, l_s

    @classmethod
    def _yatiml_recognize(cls, node: yatiml.UnknownNode) -> None:
        node.require_mapping()


# ------------- abstract by listing ABC, but not first, no abstract methods
class Fig:
    def __init__(self, name: str) -> None:
        T(self, locals())
        self.name = name


class Poly(Fig, abc.ABC):
    def __init__(self, name: str, sides: int) -> None:
        T(self, locals())
        super().__init__(name)
        self.sides = sides


class Tri(Poly):
    def __init__(self, name: str, sides: int, kind: str) -> None:
        T(self, locals())
        super().__init__(name, sides)
        self.kind = kind


class Draw:
    def __init__(self, figs: List[Fig], main: Optional[Poly] = None) -> None:
        T(self, locals())
        self.figs, self.main = figs, main


# ---- C17: Unions whose unused alternative fails silently, before an int
class Labels:
    def __init__(self, label: Union[int, str], tag2: Union[float, str],
                 count: int, size: int, ratio: float = 1.0) -> None:
        T(self, locals())
        self.label, self.tag2, self.count = label, tag2, count
        self.size, self.ratio = size, ratio


class UnderX:
    """Underscore parameters AND extra attributes: a dashed spelling of a
    parameter that is also present is an extra attribute."""
    def __init__(self, a: int, b_c: int = 0,
                 _yatiml_extra: Optional[OrderedDict] = None) -> None:
        T(self, locals())
        self.a, self.b_c = a, b_c
        self._yatiml_extra = _yatiml_extra
