"""Job scheduling, replay, known findings, evidence.  Runs under any python3
(stdlib only); the solver work happens in vlib.worker subprocesses of the
overlay interpreter.
"""
import concurrent.futures as cf
import importlib
import json
import os
import shutil
import subprocess
import sys
import time

VERIF = os.path.dirname(os.path.dirname(os.path.abspath(__file__)))
sys.path.insert(0, VERIF)
# where evidence/, work/ go (seed evaluation runs several checks at once)
OUT = os.environ.get('VERIF_OUT') or VERIF
from vlib import bootstrap  # noqa: E402

EXIT_OK, EXIT_VIOLATION, EXIT_HARNESS = 0, 1, 3
NCPU = int(os.environ.get('VERIF_JOBS', '0')) or (os.cpu_count() or 4)


def child_env(**extra):
    env = dict(os.environ)
    env['PYTHONPATH'] = VERIF + os.pathsep + bootstrap.REPO
    env['PYTHONHASHSEED'] = '0'
    env['PYTHONDONTWRITEBYTECODE'] = '1'
    for k, v in extra.items():
        env[k] = str(v)
    return env


class Job:
    def __init__(self, module, function, slice_=None, timeout=60,
                 path_timeout=0, expect='CONFIRMED', bound='', exclude=()):
        self.module, self.function, self.slice = module, function, slice_
        self.timeout, self.path_timeout = timeout, path_timeout
        self.expect = expect          # 'CONFIRMED' | 'REFUTED' (reach twin)
        self.bound = bound
        self.exclude = tuple(exclude)
        self.tier = 'quick'
        self.record = None

    @property
    def name(self):
        s = '' if self.slice is None else '[%s]' % self.slice
        return '%s.%s%s' % (self.module.split('.')[-1], self.function, s)


def run_job(job: Job, workdir: str) -> Job:
    py = bootstrap.ensure()
    out = os.path.join(workdir, job.name.replace('/', '_') + '.json')
    env = child_env(
        VERIF_TIMEOUT=job.timeout, VERIF_PATH_TIMEOUT=job.path_timeout,
        VERIF_SLICE='' if job.slice is None else job.slice,
        VERIF_EXCLUDE=','.join(job.exclude), VERIF_MODE='symbolic',
        VERIF_TIER=job.tier)
    t0 = time.time()
    try:
        p = subprocess.run(
            [py, '-m', 'vlib.worker', job.module, job.function, out],
            cwd=VERIF, env=env, capture_output=True, text=True,
            timeout=job.timeout * 3 + 120)
        err = p.stderr[-2000:]
    except subprocess.TimeoutExpired:
        err = 'worker wall-clock timeout'
    rec = None
    if os.path.exists(out):
        try:
            rec = json.load(open(out))
        except Exception:  # noqa
            rec = None
    if rec is None:
        rec = {'verdict': 'ERROR', 'message': 'no worker output: ' + err,
               'args': None, 'paths': 0, 'confirmed_paths': 0,
               'smt_queries': 0, 'solver_s': 0.0, 'cpu_s': 0.0}
    rec['wall_s'] = round(time.time() - t0, 2)
    rec['name'] = job.name
    rec['expect'] = job.expect
    rec['bound'] = job.bound
    job.record = rec
    return job


def run_jobs(jobs, workdir, log=print):
    os.makedirs(workdir, exist_ok=True)
    with cf.ThreadPoolExecutor(max_workers=NCPU) as ex:
        futs = [ex.submit(run_job, j, workdir) for j in jobs]
        for f in cf.as_completed(futs):
            j = f.result()
            r = j.record
            log('  %-46s %-9s paths=%-5d smt=%-6d cpu=%6.1fs %s' % (
                j.name, r['verdict'], r['paths'], r['smt_queries'],
                r['cpu_s'],
                (r['message'][:100] if r['verdict'] not in (
                    'CONFIRMED',) else '')))
    return jobs


def replay(module, function, args, slice_=None, exclude=()):
    """Run the harness function concretely on the *unstubbed* real code.

    Returns (reproduced, info): reproduced is True when the function returns
    False or raises; info carries the description recorded by the harness."""
    py = bootstrap.ensure()
    env = child_env(VERIF_MODE='replay',
                    VERIF_SLICE='' if slice_ is None else slice_,
                    VERIF_EXCLUDE=','.join(exclude))
    p = subprocess.run(
        [py, '-m', 'vlib.replay', module, function, json.dumps(args)],
        cwd=VERIF, env=env, capture_output=True, text=True, timeout=600)
    last = [ln for ln in p.stdout.splitlines() if ln.startswith('REPLAY ')]
    if not last:
        return None, {'error': (p.stdout + p.stderr)[-3000:]}
    info = json.loads(last[-1][len('REPLAY '):])
    return info.get('reproduced'), info


_TAG_CANDIDATES = ['!Zz', '!Trap', '!Sub', '!Doc', '!Circle', '!Shape',
                   '!Color', '!Unrel1', 'zz', '!A', '!C']


def replay_with_repair(module, function, args, slice_=None, exclude=()):
    """replay(); if the solver's witness does not reproduce and it contains a
    free string made of control characters (z3 fills unconstrained
    positions with U+0000..), try the same case with that string replaced by
    a few ordinary candidates.  A case that reproduces on the unstubbed real
    code is a genuine counterexample whichever way it was found; the args
    that reproduced are the ones reported."""
    rep, info = replay(module, function, args, slice_, exclude)
    if rep or rep is None and not isinstance(args, dict):
        return rep, info, args
    if not isinstance(args, dict):
        return rep, info, args
    junk = [k for k, v in args.items() if isinstance(v, str) and v and
            any(ord(ch) < 32 or 0xD800 <= ord(ch) <= 0xDFFF for ch in v)]
    for k in junk:
        for cand in _TAG_CANDIDATES:
            a2 = dict(args)
            a2[k] = cand
            r2, i2 = replay(module, function, a2, slice_, exclude)
            if r2:
                i2['repaired_from'] = {k: args[k]}
                return r2, i2, a2
    return rep, info, args


def load_known(prop):
    path = os.path.join(VERIF, 'known_findings.json')
    if not os.path.exists(path):
        return []
    data = json.load(open(path))
    return [e for e in data.get('findings', [])
            if e.get('property') == prop and e.get('status') == 'open']


def write_replay_file(prop, job, info):
    d = os.path.join(OUT, 'evidence', 'replays')
    os.makedirs(d, exist_ok=True)
    n = 0
    while True:
        path = os.path.join(d, '%s_%s_%d.json' % (
            prop, job.name.replace('[', '_').replace(']', ''), n))
        if not os.path.exists(path):
            break
        n += 1
    json.dump({'property': prop, 'module': job.module,
               'function': job.function, 'slice': job.slice,
               'args': job.record['args'], 'exclude': list(job.exclude),
               'crosshair_message': job.record['message'],
               'replay_info': info,
               'how': 'python3 /verif/check.py --replay ' + path},
              open(path, 'w'), indent=1)
    return path


def validate_evidence(path):
    try:
        import jsonschema
    except ImportError:
        return
    schema = json.load(open('/root/.vp/EVIDENCE.schema.json'))
    jsonschema.validate(json.load(open(path)), schema)


def write_evidence(prop, tier, level, coverage, assumptions, wall, violations,
                   extra=None):
    os.makedirs(os.path.join(OUT, 'evidence'), exist_ok=True)
    ev = {'property_id': prop, 'tier': tier,
          'seed': int(os.environ.get('VERIF_SEED', '0') or 0),
          'level': level, 'coverage': coverage,
          'assumptions': assumptions, 'wall_s': round(wall, 2),
          'violations': violations}
    if extra:
        ev.update(extra)
    path = os.path.join(OUT, 'evidence', prop + '.json')
    tmp = path + '.tmp'
    json.dump(ev, open(tmp, 'w'), indent=1, default=str)
    os.replace(tmp, path)
    return path


def repo_state():
    try:
        head = subprocess.run(['git', '-C', bootstrap.REPO, 'rev-parse',
                               'HEAD'], capture_output=True,
                              text=True).stdout.strip()
        dirty = subprocess.run(['git', '-C', bootstrap.REPO, 'status',
                                '--porcelain', '--', 'yatiml'],
                               capture_output=True, text=True).stdout.strip()
        return {'head': head, 'dirty_files': dirty.splitlines()}
    except Exception as e:  # noqa
        return {'error': repr(e)}


def run_e1_property(prop, tier, harness_module, log=print):
    """Generic driver for a CrossHair-decided property.

    The harness module exports
      CONDITIONS: list of dicts {fn, slices (list|None), quick, thorough
                  (cpu seconds or None = not in that tier), bound, twin
                  (name of the reachability twin or None), path_timeout}
      ENCODED:    list of real functions executed symbolically
      ASSUMPTIONS: list of strings
    """
    t0 = time.time()
    bootstrap.ensure()
    # import lazily in a subprocess-free way: only metadata is read here
    meta = harness_meta(harness_module)
    workdir = os.path.join(OUT, 'work', prop)
    shutil.rmtree(workdir, ignore_errors=True)
    os.makedirs(workdir, exist_ok=True)

    # ---- known findings: confirm each witness concretely, exclude its region
    exclude = []
    known_lines = []
    for kf in load_known(prop):
        w = kf['witness']
        rep, info = replay(w['module'], w['function'], w['args'],
                           w.get('slice'))
        if rep:
            known_lines.append('KNOWN-FINDING: property=%s %s [%s]' % (
                prop, kf['what'], kf['id']))
            exclude.append(kf['region'])
        elif rep is None:
            log('HARNESS-ERROR: known-finding witness %s could not be '
                'replayed: %s' % (kf['id'], info))
            return EXIT_HARNESS
        else:
            log('note: known finding %s no longer reproduces; its region is '
                'checked like any other' % kf['id'])
    for ln in known_lines:
        log(ln)

    e2 = None
    e2_violations, e2_errors = [], []
    if meta.get('E2'):
        e2out = os.path.join(workdir, 'e2.json')
        p = subprocess.run(
            [bootstrap.ensure(), '-m', harness_module, '--e2', tier, e2out],
            cwd=VERIF, env=child_env(VERIF_MODE='replay'),
            capture_output=True, text=True, timeout=7200)
        if not os.path.exists(e2out):
            log('HARNESS-ERROR: E2 stage produced nothing: ' +
                (p.stdout + p.stderr)[-3000:])
            return EXIT_HARNESS
        e2 = json.load(open(e2out))
        if e2.get('untranslatable'):
            log('inconclusive: E2 cannot encode the current resolver table '
                '(%s) -- nothing it covers is counted as held' %
                e2['untranslatable'])
        for q in e2['queries']:
            log('  E2 %-6s %6.2fs %s%s' % (
                q['result'], q['solver_s'], q['name'],
                ('  witness=%r' % q['witness']) if q.get('witness')
                is not None else ''))
        e2_errors = list(e2.get('harness_errors', []))
        for v in e2.get('violations', []):
            j = Job(harness_module, v['function'], None, 0, 0, 'CONFIRMED',
                    'E2 query: ' + v['query'], ())
            j.record = {'args': v['args'], 'message': v['query'],
                        'verdict': 'REFUTED', 'paths': 0, 'smt_queries': 0,
                        'solver_s': 0.0, 'cpu_s': 0.0}
            rep, info = replay(j.module, j.function, v['args'])
            if rep:
                e2_violations.append((j, write_replay_file(prop, j, info),
                                      info))
            else:
                e2_errors.append('E2 witness does not replay: %r' % (v,))

    jobs = []
    for c in meta['CONDITIONS']:
        budget = c.get(tier)
        if not budget:
            continue
        slices = c.get('slices') or [None]
        if tier == 'quick' and c.get('quick_slices') is not None:
            slices = c['quick_slices']
        for s in slices:
            jobs.append(Job(harness_module, c['fn'], s, budget,
                            c.get('path_timeout', 0),
                            c.get('expect', 'CONFIRMED'),
                            c.get('bound', ''), exclude))
            if c.get('twin'):
                jobs.append(Job(harness_module, c['twin'], s,
                                min(budget, 60), c.get('path_timeout', 0),
                                'REFUTED', 'reachability twin of ' + c['fn'],
                                exclude))
    for j in jobs:
        j.tier = tier
    log('%s %s: %d jobs on %d workers' % (prop, tier, len(jobs), NCPU))
    run_jobs(jobs, workdir, log)

    violations, harness_errors, inconclusive, vacuous = [], [], [], []
    replays_ok = 0
    samples = []
    for j in jobs:
        r = j.record
        if j.expect == 'REFUTED':
            # reachability twin: must be refuted, and replay must agree
            if r['verdict'] == 'REFUTED':
                rep, info = replay(j.module, j.function, r['args'], j.slice,
                                   j.exclude)
                if rep:
                    replays_ok += 1
                    if len(samples) < 6:
                        samples.append({'condition': j.name, 'kind':
                                        'reachability witness',
                                        'args': r['args'],
                                        'info': info.get('last')})
                else:
                    harness_errors.append((j, 'twin witness does not replay',
                                           info))
            elif r['verdict'] in ('CONFIRMED', 'PRE_UNSAT'):
                vacuous.append(j)
            elif r['verdict'] == 'ERROR':
                harness_errors.append((j, r['message'], None))
            else:
                inconclusive.append(j)
            continue
        if r['verdict'] == 'REFUTED' and not isinstance(r.get('args'), dict):
            # e.g. CrossHair's NotDeterministic: no input to replay
            harness_errors.append((j, 'refuted without a counterexample: '
                                   + r['message'][:300], None))
        elif r['verdict'] == 'REFUTED':
            rep, info, used = replay_with_repair(
                j.module, j.function, r['args'], j.slice, j.exclude)
            if rep:
                r['args'] = used
                path = write_replay_file(prop, j, info)
                violations.append((j, path, info))
            else:
                harness_errors.append(
                    (j, 'counterexample does not reproduce on the unstubbed '
                        'code', info))
        elif r['verdict'] == 'ERROR':
            harness_errors.append((j, r['message'], None))
        elif r['verdict'] == 'PRE_UNSAT':
            vacuous.append(j)
        elif r['verdict'] != 'CONFIRMED':
            inconclusive.append(j)

    violations.extend(e2_violations)
    main_jobs = [j for j in jobs if j.expect == 'CONFIRMED']
    confirmed = [j for j in main_jobs if j.record['verdict'] == 'CONFIRMED']
    paths = sum(j.record['paths'] for j in jobs)
    smt = sum(j.record['smt_queries'] for j in jobs)
    solver_s = sum(j.record['solver_s'] for j in jobs)
    for j in confirmed[:4]:
        samples.append({'condition': j.name, 'kind': 'confirmed over all '
                        'paths', 'bound': j.bound,
                        'paths': j.record['paths']})
    for j, path, info in violations[:4]:
        samples.append({'condition': j.name, 'kind': 'violation',
                        'args': j.record['args'], 'replay': path})
    coverage = {
        'states': max(paths, 1),
        'transitions': max(smt + (len(e2['queries']) if e2 else 0), 1),
        'traces_validated_against_impl': replays_ok + len(violations),
        'samples': samples or [{'note': 'no condition finished'}],
        'exhaustive': (bool(main_jobs) or e2 is not None)
        and not meta.get('SKIPPED')
        and len(confirmed) == len(main_jobs)
        and (e2 is None or (not e2.get('untranslatable') and all(
            q['result'] == q['expect'] for q in e2['queries']))),
        'explanation': (
            'states = execution paths explored by CrossHair over the real '
            'yatiml code (each ends in a distinct symbolic state); '
            'transitions = SMT satisfiability queries deciding the branches '
            'on those paths; traces validated = solver witnesses '
            '(reachability twins, counterexamples) replayed concretely on '
            'the unstubbed public API. exhaustive=true iff every condition '
            'was "Confirmed over all paths" within its stated bound.'),
        'functions_encoded': meta.get('ENCODED', []),
        'engine': 'crosshair-tool 0.0.110 + z3 (symbolic execution of the '
                  'real modules imported from /repo; nothing is translated '
                  'by hand, so the encoding is regenerated on every run)',
        'conditions': [{
            'name': j.name, 'expect': j.expect, 'bound': j.bound,
            'verdict': j.record['verdict'], 'paths': j.record['paths'],
            'smt_queries': j.record['smt_queries'],
            'solver_s': j.record['solver_s'], 'cpu_s': j.record['cpu_s'],
            'timeout_s': j.timeout} for j in jobs],
        'conditions_total': len(main_jobs),
        'conditions_confirmed': len(confirmed),
        'conditions_inconclusive': [j.name for j in inconclusive] + [
            'skipped: ' + x for x in meta.get('SKIPPED') or []],
        'solver_time_s': round(solver_s, 2),
        'e2': None if e2 is None else {
            'engine': 'z3 (python API) string/regex theory over the live '
                      'resolver tables; thorough tier cross-checks each '
                      'query with the cvc5 binary',
            'queries': e2['queries'],
            'queries_total': len(e2['queries']),
            'queries_as_expected': sum(1 for q in e2['queries']
                                       if q['result'] == q['expect']),
            'solver_s': round(sum(q['solver_s'] for q in e2['queries']), 2),
            'validation': e2.get('validation'),
            'untranslatable': e2.get('untranslatable'),
            'cvc5': e2.get('cvc5')},
        'known_findings_reported': known_lines,
        'regions_assumed_away': exclude,
        'repo': repo_state(),
    }
    ev = write_evidence(prop, tier, 'model_checking', coverage,
                        meta.get('ASSUMPTIONS', []), time.time() - t0,
                        len(violations))
    try:
        validate_evidence(ev)
    except Exception as e:  # noqa
        log('HARNESS-ERROR: evidence does not validate: %s' % e)
        return EXIT_HARNESS
    shutil.rmtree(workdir, ignore_errors=True)

    if e2 is not None:
        for q in e2['queries']:
            if q['result'] not in ('sat', 'unsat'):
                log('inconclusive: E2 query "%s" is %s -- not counted as '
                    'held' % (q['name'], q['result']))
        for m in e2_errors:
            log('HARNESS-ERROR: ' + m)
    for x in meta.get('SKIPPED') or []:
        log('inconclusive: skipped -- %s' % x)
    for j in inconclusive:
        log('inconclusive: %s (%s) -- not counted as held' % (
            j.name, j.record['message'][:200]))
    for j in vacuous:
        log('HARNESS-ERROR: vacuous condition %s (%s)' % (
            j.name, j.record['message'][:300]))
    for j, why, info in harness_errors:
        log('HARNESS-ERROR: %s: %s %s' % (j.name, str(why)[:1500],
                                          json.dumps(info)[:1500] if info
                                          else ''))
    for j, path, info in violations:
        log('counterexample %s args=%s' % (j.name, json.dumps(
            j.record['args'])))
        log('  ' + json.dumps(info.get('last'))[:1500])
        print('VIOLATION property=%s replay=%s' % (prop, path))
    log('%s %s: %d/%d conditions confirmed over all paths, %d inconclusive, '
        '%d violations, %d paths, %d SMT queries (%.1fs solver), wall %.0fs'
        % (prop, tier, len(confirmed), len(main_jobs),
           len(inconclusive) + len(meta.get('SKIPPED') or []),
           len(violations), paths, smt, solver_s, time.time() - t0))
    if violations:
        return EXIT_VIOLATION
    if harness_errors or vacuous or e2_errors:
        return EXIT_HARNESS
    return EXIT_OK


def harness_meta(harness_module):
    """Read CONDITIONS/ENCODED/ASSUMPTIONS from the harness module by
    importing it in the overlay interpreter (it imports yatiml)."""
    py = bootstrap.ensure()
    code = (
        'import json, importlib\n'
        'm = importlib.import_module(%r)\n'
        'print("META " + json.dumps({k: getattr(m, k, []) for k in '
        '("CONDITIONS", "ENCODED", "ASSUMPTIONS", "E2", "SKIPPED")}))\n' % harness_module)
    p = subprocess.run([py, '-c', code], cwd=VERIF, env=child_env(
        VERIF_MODE='replay'), capture_output=True, text=True, timeout=300)
    for ln in p.stdout.splitlines():
        if ln.startswith('META '):
            return json.loads(ln[5:])
    raise RuntimeError('cannot import %s: %s' % (harness_module,
                                                 p.stderr[-3000:]))
