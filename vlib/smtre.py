"""E2: compiled `re.Pattern` objects (read from live PyYAML/yatiml resolver
tables) -> z3 regular expressions; PyYAML's Resolver.resolve for plain scalars
-> a z3 term.  Runs inside the overlay interpreter (needs z3 and yaml).

Domain of every query: strings without '\n' (a plain scalar cannot contain
one as its last character, and Python's `$` would otherwise also match before
a trailing newline).  z3 characters range over U+0000..U+2FFFF.
"""
import re
import time

try:
    import re._parser as sre_parse
    import re._constants as sre_c
except ImportError:                                     # < 3.11
    import sre_parse
    import sre_constants as sre_c

import z3

ANYCHAR = z3.AllChar(z3.ReSort(z3.StringSort()))
NOTHING = z3.Empty(z3.ReSort(z3.StringSort()))


class Untranslatable(Exception):
    pass


def rng(lo, hi):
    return z3.Range(chr(lo), chr(hi))


def lit(s):
    return z3.Re(z3.StringVal(s))


def union(rs):
    rs = list(rs)
    if not rs:
        return NOTHING
    return rs[0] if len(rs) == 1 else z3.Union(*rs)


def concat(rs):
    rs = list(rs)
    if not rs:
        return lit('')
    return rs[0] if len(rs) == 1 else z3.Concat(*rs)


def words(ws):
    return union(lit(w) for w in ws)


_ICASE = [False]
_ASCII = [False]
_CATS = {}


def _category(name):
    """Unicode-aware \\d, \\s, \\w of a str pattern (what `re` itself uses:
    str.isdecimal / str.isspace / str.isalnum or '_'), as a union of code
    point ranges over z3's character domain U+0000..U+2FFFF; under re.ASCII
    the ASCII sets."""
    key = (name, _ASCII[0])
    if key not in _CATS:
        if _ASCII[0]:
            test = {'digit': lambda c: c in '0123456789',
                    'space': lambda c: c in ' \t\n\r\f\v',
                    'word': lambda c: c.isascii() and (c.isalnum() or
                                                       c == '_')}[name]
        else:
            test = {'digit': str.isdecimal, 'space': str.isspace,
                    'word': lambda c: c.isalnum() or c == '_'}[name]
        ranges, start = [], None
        for cp in range(0x30000):
            ok = test(chr(cp))
            if ok and start is None:
                start = cp
            elif not ok and start is not None:
                ranges.append((start, cp - 1))
                start = None
        if start is not None:
            ranges.append((start, 0x2FFFF))
        _CATS[key] = union(rng(a, b) for a, b in ranges)
    return _CATS[key]


def _cat(av):
    table = {sre_c.CATEGORY_DIGIT: ('digit', False),
             sre_c.CATEGORY_NOT_DIGIT: ('digit', True),
             sre_c.CATEGORY_SPACE: ('space', False),
             sre_c.CATEGORY_NOT_SPACE: ('space', True),
             sre_c.CATEGORY_WORD: ('word', False),
             sre_c.CATEGORY_NOT_WORD: ('word', True)}
    if av not in table:
        raise Untranslatable(str(av))
    name, neg = table[av]
    r = _category(name)
    return z3.Intersect(ANYCHAR, z3.Complement(r)) if neg else r


def _lit_ci(c):
    """A literal character, honouring re.IGNORECASE (simple case folding)."""
    if not _ICASE[0]:
        return lit(c)
    forms = {c, c.lower(), c.upper()}
    forms = {f for f in forms if len(f) == 1}
    # characters that case-fold onto ASCII letters (re matches them under
    # re.I without re.ASCII): U+0130, U+0131, U+017F, U+212A
    extra = {'i': '\u0130\u0131', 's': '\u017f', 'k': '\u212a'}
    for f in list(forms):
        if not _ASCII[0]:
            forms |= set(extra.get(f.lower(), ''))
    return union(lit(f) for f in sorted(forms))


def _rng_ci(lo, hi):
    if not _ICASE[0]:
        return rng(lo, hi)
    alts = [rng(lo, hi)]
    for a, b, d in ((97, 122, -32), (65, 90, 32)):
        l2, h2 = max(lo, a), min(hi, b)
        if l2 <= h2:
            alts.append(rng(l2 + d, h2 + d))
    if any(ord(ch) > 127 for ch in (chr(lo), chr(hi))):
        raise Untranslatable('non-ASCII range under re.I')
    return union(alts)


def _charset(items):
    neg, alts = False, []
    for op, av in items:
        if op is sre_c.NEGATE:
            neg = True
        elif op is sre_c.LITERAL:
            alts.append(_lit_ci(chr(av)))
        elif op is sre_c.RANGE:
            alts.append(_rng_ci(*av))
        elif op is sre_c.CATEGORY:
            alts.append(_cat(av))
        else:
            raise Untranslatable(str(op))
    r = union(alts)
    if neg:
        r = z3.Intersect(ANYCHAR, z3.Complement(r))
    return r


def _tr1(op, av):
    if op is sre_c.LITERAL:
        return _lit_ci(chr(av))
    if op is sre_c.NOT_LITERAL:
        return z3.Intersect(ANYCHAR, z3.Complement(_lit_ci(chr(av))))
    if op is sre_c.ANY:
        return z3.Intersect(ANYCHAR, z3.Complement(lit('\n')))
    if op is sre_c.IN:
        return _charset(av)
    if op is sre_c.BRANCH:
        return union(_tr(b) for b in av[1])
    if op is sre_c.SUBPATTERN:
        return _tr(av[3])
    if op in (sre_c.MAX_REPEAT, sre_c.MIN_REPEAT):
        lo, hi, sub = av
        r = _tr(sub)
        if hi is sre_c.MAXREPEAT:
            if lo == 0:
                return z3.Star(r)
            if lo == 1:
                return z3.Plus(r)
            return concat([r] * lo + [z3.Star(r)])
        if (lo, hi) == (0, 1):
            return z3.Option(r)
        return z3.Loop(r, lo, hi)
    raise Untranslatable(str(op))


def _tr(parsed):
    return concat(_tr1(op, av) for op, av in parsed)


_BEGIN = (sre_c.AT_BEGINNING, sre_c.AT_BEGINNING_STRING)
_END = (sre_c.AT_END, sre_c.AT_END_STRING)


def _split_anchors(items):
    """items of one alternative -> (body items, anchored_at_end)."""
    items = list(items)
    while items and items[0][0] is sre_c.AT and items[0][1] in _BEGIN:
        items = items[1:]
    end = False
    while items and items[-1][0] is sre_c.AT and items[-1][1] in _END:
        end = True
        items = items[:-1]
    for op, av in items:
        if op is sre_c.AT:
            raise Untranslatable('inner anchor')
    return items, end


def match_lang(pat):
    """z3 regex of {s without newline | pat.match(s) is not None}.

    `match` anchors at the start only; an alternative that does not end in
    `$` accepts any continuation.  Anchors are handled at top level and at the
    top level of a top-level alternation (that is how PyYAML writes them:
    ^(?:a|b|c)$  or  ^(?:a)$|^(?:b)$ )."""
    if pat.flags & (re.M | re.S | re.L):
        raise Untranslatable('flags %r' % pat.flags)
    key = (pat.pattern, pat.flags)
    if key in _LANG_CACHE:
        return _LANG_CACHE[key]
    _ICASE[0] = bool(pat.flags & re.I)
    _ASCII[0] = bool(pat.flags & re.A)
    try:
        _LANG_CACHE[key] = _match_lang(pat)
        return _LANG_CACHE[key]
    finally:
        _ICASE[0] = False
        _ASCII[0] = False


_LANG_CACHE = {}


def _match_lang(pat):
    parsed = list(sre_parse.parse(pat.pattern, pat.flags & re.X))
    tail = z3.Star(z3.Intersect(ANYCHAR, z3.Complement(lit('\n'))))
    if len(parsed) == 1 and parsed[0][0] is sre_c.BRANCH:
        alts = []
        for b in parsed[0][1][1]:
            items, end = _split_anchors(b)
            body = _tr(items)
            alts.append(body if end else concat([body, tail]))
        return union(alts)
    items, end = _split_anchors(parsed)
    body = _tr(items)
    return body if end else concat([body, tail])


STR_TAG = 'tag:yaml.org,2002:str'


class ResolverModel:
    """Resolver.resolve(ScalarNode, s, (True, False)) as a z3 Int term over
    a z3 string `s`: first-character bucket, then the None bucket, first
    pattern that matches, default str (yaml/resolver.py: resolve)."""

    def __init__(self, table, s, tags=None):
        self.table = table
        alltags = {t for rs in table.values() for t, _ in rs} | {STR_TAG}
        if tags:
            alltags |= set(tags)
        self.tags = sorted(alltags)
        self.idx = {t: i for i, t in enumerate(self.tags)}
        self.s = s
        self.patterns = {}
        wild = table.get(None, [])
        first = z3.SubString(s, 0, 1)
        res = self._chain(wild)
        for ch, rs in table.items():
            if ch is None:
                continue
            if ch == '':
                cond = z3.Length(s) == 0
            else:
                cond = z3.And(z3.Length(s) > 0, first == z3.StringVal(ch))
            res = z3.If(cond, self._chain(list(rs) + list(wild)), res)
        self.term = res

    def _chain(self, rs):
        e = z3.IntVal(self.idx[STR_TAG])
        for tag, rx in reversed(rs):
            key = (rx.pattern, rx.flags)
            if key not in self.patterns:
                self.patterns[key] = (rx, match_lang(rx))
            e = z3.If(z3.InRe(self.s, self.patterns[key][1]),
                      z3.IntVal(self.idx[tag]), e)
        return e

    def is_(self, tag):
        if tag not in self.idx:
            return z3.BoolVal(False)
        return self.term == self.idx[tag]


def py_resolve(table, s):
    """Reference re-implementation of Resolver.resolve for plain scalars,
    on concrete strings (used to validate the encoding)."""
    if s == '':
        rs = table.get('', [])
    else:
        rs = table.get(s[0], [])
    rs = list(rs) + list(table.get(None, []))
    for tag, rx in rs:
        if rx.match(s):
            return tag
    return STR_TAG


class Session:
    """Collects queries, their verdicts and solver time."""

    def __init__(self, timeout_ms=60000):
        self.timeout_ms = timeout_ms
        self.queries = []
        self.s = z3.String('s')
        self.nonl = z3.Not(z3.Contains(self.s, z3.StringVal('\n')))

    def query(self, name, *cons, expect='unsat'):
        so = z3.Solver()
        so.set('timeout', self.timeout_ms)
        so.add(self.nonl, *cons)
        t = time.time()
        r = str(so.check())
        dt = time.time() - t
        wit = None
        if r == 'sat':
            wit = so.model().eval(self.s, model_completion=True).as_string()
            wit = _unescape(wit)
        rec = {'name': name, 'result': r, 'expect': expect,
               'solver_s': round(dt, 3), 'witness': wit,
               'smt2': None}
        self.queries.append(rec)
        rec['_solver'] = so
        return rec


def _unescape(z3s):
    """z3 prints non-ASCII/special characters as \\u{XX}."""
    return re.sub(r'\\u\{([0-9a-fA-F]+)\}', lambda m: chr(int(m.group(1), 16)),
                  z3s)


def resolves_to_decomposed(ses, table, lang, tag, name, first_chars=None):
    """Queries that together imply  forall s in lang: resolve(s) == tag  for
    the resolver `table`, without the big if-then-else term: for every
    first-character bucket that a string of `lang` can start with, (a) lang
    is included in the union of the bucket's patterns for `tag`, and (b) no
    pattern of the bucket for another tag matches a string of lang.  (b) is
    stronger than needed (order is ignored); a `sat` there is reported as
    inconclusive by the caller, not as a violation."""
    out = []
    s = ses.s
    wild = list(table.get(None, []))
    if first_chars is not None:
        # a first character without a bucket falls through to the wildcard
        # resolvers only
        q = ses.query('%s: starts with one of %r' % (name, first_chars),
                      z3.InRe(s, lang), z3.Not(z3.InRe(s, concat([
                          words(list(first_chars)), z3.Star(ANYCHAR)]))))
        q.pop('_solver')
        out.append(q)
        missing = [c for c in first_chars if c not in table]
        if missing:
            raise Untranslatable('no bucket for %r' % missing)
    for ch, rs in table.items():
        if ch is None:
            continue
        if ch == '':
            starts = z3.Length(s) == 0
        else:
            starts = z3.InRe(s, concat([lit(ch), z3.Star(ANYCHAR)]))
        if first_chars is not None:
            # the caller knows which characters strings of lang start with
            if ch not in first_chars:
                continue
        else:
            probe = ses.query('%s: can a string start with %r' % (name, ch),
                              z3.InRe(s, lang), starts, expect='either')
            probe.pop('_solver')
            if probe['result'] == 'unsat':
                continue
        chain = list(rs) + wild
        mine = [match_lang(rx) for t, rx in chain if t == tag]
        others = [(t, rx) for t, rx in chain if t != tag]
        q = ses.query('%s [bucket %r]: not matched by any %s pattern' % (
            name, ch, tag.split(':')[-1]), z3.InRe(s, lang), starts,
            z3.Not(z3.InRe(s, union(mine))) if mine else z3.BoolVal(True))
        q.pop('_solver')
        out.append(q)
        for t, rx in others:
            q = ses.query('%s [bucket %r]: also matched by the %s pattern' % (
                name, ch, t.split(':')[-1]), z3.InRe(s, lang), starts,
                z3.InRe(s, match_lang(rx)))
            q.pop('_solver')
            out.append(q)
    return out
