"""Shared by all harness modules: run mode, slices, known-finding regions,
environment stubs (DESIGN 2.2) and the two ways a node tree reaches the real
loader (composer stub under symbolic execution, YAML text at replay).
"""
import os
import sys

import yaml
from yaml.error import Mark

VERIF = os.path.dirname(os.path.dirname(os.path.abspath(__file__)))

MODE = os.environ.get('VERIF_MODE', 'replay')       # 'symbolic' | 'replay'
SYMBOLIC = MODE == 'symbolic'


def slice_no(default: int = 0) -> int:
    v = os.environ.get('VERIF_SLICE', '')
    return int(v) if v not in ('', None) else default


def tier() -> str:
    return os.environ.get('VERIF_TIER', 'quick')


def excluded() -> frozenset:
    v = os.environ.get('VERIF_EXCLUDE', '')
    return frozenset(x for x in v.split(',') if x)


class HarnessError(Exception):
    """The harness itself (a stub, the encoding, the replay) is wrong."""


def pick(lst, i):
    """lst[i] for a solver-chosen selector i: an explicit if-chain, so that
    the engine forks on the concrete index instead of building a symbolic
    element (CrossHair mis-models symbolic indexing into lists of types)."""
    for k in range(len(lst)):
        if i == k:
            return lst[k]
    raise HarnessError('selector out of range')


# --------------------------------------------------------------------------
# description of the last scenario, filled in replay mode for the report
LAST = {}


def note(**kw) -> None:
    if not SYMBOLIC:
        for k, v in kw.items():
            try:
                LAST[k] = v if isinstance(v, (int, float, bool, type(None))) \
                    else str(v)
            except Exception as e:  # noqa
                LAST[k] = '<unprintable %s>' % type(e).__name__


# --------------------------------------------------------------------------
# stubs
STUBS_USED = []
_TREE = [None]
_PENDING = [False]
_REAL_COMPOSER_GSN = yaml.composer.Composer.get_single_node


def _install_fast_paths() -> None:
    """Engine-side accelerations (they do not change what the real code
    computes on the values the harnesses feed it):

    * CrossHair replaces str.format by a pure-Python Formatter executed under
      its tracer (needed for symbolic arguments); yatiml formats a log or
      error message at almost every step, which made one path cost ~2 s.
      When the template and every argument are plain concrete objects the
      native str.format is used instead; a yaml.Node argument is rendered as
      "N" (stub S1: formatting a node has no effect on control flow).
    * inspect.getfullargspec is memoised per function object (S8).
    """
    import inspect
    import typing
    import crosshair.core as core
    from crosshair.tracers import NoTracing
    orig = core._PATCH_REGISTRATIONS.get(str.format)
    if orig is None or getattr(orig, '_verif_fast', False):
        return
    # no function called from a harness carries a contract: switch off
    # CrossHair's contract enforcement interposer (pure overhead here)
    import contextlib
    import crosshair.enforce as enf

    @contextlib.contextmanager
    def _no_enforcement(self):
        yield None
    enf.EnforcedConditions.enabled_enforcement = _no_enforcement
    safe = {str, int, float, bool, type(None), Mark,
            type(typing.List[int]), type(typing.Any),
            type(typing.Union[int, str])}

    def fast_format(self, /, *a, **kw):
        with NoTracing():
            if type(self) is str and not kw:
                args = []
                for x in a:
                    if type(x) in safe or isinstance(x, type):
                        args.append(x)
                    elif isinstance(x, yaml.nodes.Node):
                        args.append('N')
                    elif type(x) in (list, tuple, set, frozenset) and all(
                            type(y) in safe or isinstance(y, type)
                            for y in x):
                        args.append(x)
                    else:
                        args = None
                        break
                if args is not None:
                    return str.format(self, *args)
        return orig(self, *a, **kw)
    fast_format._verif_fast = True
    core._PATCH_REGISTRATIONS[str.format] = fast_format

    real_spec = inspect.getfullargspec
    cache = {}

    def cached_spec(func):
        with NoTracing():
            try:
                return cache[func]
            except KeyError:
                r = cache[func] = real_spec(func)
                return r
            except TypeError:
                pass
        return real_spec(func)
    inspect.getfullargspec = cached_spec
    STUBS_USED.append('S8 memoised inspect.getfullargspec; native '
                      'str.format on concrete arguments')


def install_stubs(close_matches: bool = True, composer: bool = True) -> None:
    """S1-S3.  Only under symbolic execution; replay runs the real thing."""
    if not SYMBOLIC:
        return
    _install_fast_paths()
    # S1: formatting a node (logger.debug('...{}'.format(node))) has no effect
    # on control flow; without this CrossHair deep-realises every symbolic tag.
    yaml.nodes.Node.__ch_deep_realize__ = lambda self, memo: "N"
    STUBS_USED.append('S1 node formatting')
    if close_matches:
        # S2: difflib.get_close_matches only words "did you mean" hints
        import yatiml.util
        yatiml.util.get_close_matches = lambda *a, **k: []
        STUBS_USED.append('S2 close-match hints')
    if composer:
        # S3: the text front end returns *some* node tree (or None)
        yaml.composer.Composer.get_single_node = lambda self: _TREE[0]
        # the multi-document hooks (yaml.load_all): one pending document
        yaml.composer.Composer.check_node = lambda self: _PENDING[0]

        def _get_node(self):
            _PENDING[0] = False
            return _TREE[0]
        yaml.composer.Composer.get_node = _get_node
        STUBS_USED.append('S3 composer')


P = 'tag:yaml.org,2002:'
T_STR, T_INT, T_FLOAT, T_BOOL, T_NULL = (
    P + 'str', P + 'int', P + 'float', P + 'bool', P + 'null')
T_TS, T_MAP, T_SEQ = P + 'timestamp', P + 'map', P + 'seq'


# The "source line" every harness mark points into: error messages quote a
# snippet of the input, so it holds what an adversarial line could hold.
_SNIPPET = 'k: {0} {x} {} %s %(k)s %d { }} \\n\x00'


def mk(line: int, col: int = 0) -> Mark:
    return Mark('doc', line, line, col, _SNIPPET, 3)


class LineCounter:
    """Gives each node its own concrete line (marks are never symbolic)."""
    def __init__(self) -> None:
        self.n = 0

    def next(self) -> Mark:
        self.n += 1
        return mk(self.n)


def scalar(tag, value, lc=None):
    m = lc.next() if lc else mk(0)
    return yaml.ScalarNode(tag, value, m, m)


def seq(items, tag=T_SEQ, lc=None):
    m = lc.next() if lc else mk(0)
    return yaml.SequenceNode(tag, list(items), m, m)


def mapping(pairs, tag=T_MAP, lc=None):
    m = lc.next() if lc else mk(0)
    return yaml.MappingNode(tag, list(pairs), m, m)


# --------------------------------------------------------------------------
# tree <-> text (replay)

def tree_sig(node, _seen=None):
    """(kind, tag, value) structure incl. sharing, as plain data."""
    if _seen is None:
        _seen = {}
    if node is None:
        return None
    if id(node) in _seen:
        return ('alias', _seen[id(node)])
    _seen[id(node)] = len(_seen)
    if isinstance(node, yaml.ScalarNode):
        return ('scalar', str(node.tag), str(node.value))
    if isinstance(node, yaml.SequenceNode):
        return ('seq', str(node.tag), [tree_sig(i, _seen) for i in node.value])
    if isinstance(node, yaml.MappingNode):
        return ('map', str(node.tag), [
            (tree_sig(k, _seen), tree_sig(v, _seen)) for k, v in node.value])
    raise HarnessError('not a node: %r' % (node,))


_replay_dumper = [None]


def _dumper_for(loader_cls):
    """A SafeDumper whose implicit resolvers are those of the yatiml loader, so
    that "plain" in the emitted text means what the loader will resolve."""
    inst = loader_cls('')
    table = {k: list(v) for k, v in inst.yaml_implicit_resolvers.items()}

    class ReplayDumper(yaml.SafeDumper):
        pass
    ReplayDumper.yaml_implicit_resolvers = table
    return ReplayDumper


STYLE_FAITHFUL = [False]      # set by harnesses whose subject is node style


def _styles(node, out=None):
    out = [] if out is None else out
    if isinstance(node, yaml.ScalarNode):
        out.append(node.style or '')
    elif isinstance(node, yaml.SequenceNode):
        out.append('empty' if not node.value else
                   'flow' if node.flow_style else 'block')
        for x in node.value:
            _styles(x, out)
    else:
        out.append('empty' if not node.value else
                   'flow' if node.flow_style else 'block')
        for k, v in node.value:
            _styles(k, out)
            _styles(v, out)
    return out


def simple_text(tree, loader_cls):
    """A small emitter that, unlike yaml.serialize, keeps the requested style
    of every scalar (a plain scalar with an explicit tag stays plain) and
    collection.  Returns None when the tree is outside what it handles
    (complex keys, shared nodes, odd characters); the caller then falls back
    to yaml.serialize.  The result is validated by the caller."""
    import json
    import re
    ldr = loader_cls('')
    seen = set()
    plain_ok = re.compile(r"[A-Za-z0-9_./+-][A-Za-z0-9_ ./+:-]*\Z")

    class Unsupported(Exception):
        pass

    def tagtext(tag):
        if tag.startswith('tag:yaml.org,2002:') and re.fullmatch(
                r'[\w:./-]+', tag[18:]):
            return '!!' + tag[18:]
        if re.fullmatch(r'![A-Za-z0-9_]+', tag):
            return tag
        if re.fullmatch(r"[\w:,./!-]+", tag):
            return '!<%s>' % tag
        try:
            raw = tag.encode('utf-8')
        except UnicodeEncodeError:
            raise Unsupported(tag)
        # verbatim tag with %XX escapes (the scanner decodes them)
        return '!<%s>' % ''.join(
            chr(b) if chr(b).isalnum() or chr(b) in "-_.:/" else '%%%02X' % b
            for b in raw)

    def scalar(n):
        v = n.value
        style = n.style
        if style in (None, ''):
            if not plain_ok.match(v) or ': ' in v or ' #' in v or \
                    v.endswith(' ') or v.endswith(':') or v in ('-', '---'):
                raise Unsupported('not plain-safe')
            body = v
            implicit = ldr.resolve(yaml.ScalarNode, v, (True, False))
        elif style == '"':
            if any(ord(ch) < 32 or 0xD800 <= ord(ch) <= 0xDFFF for ch in v):
                raise Unsupported('control')
            body = json.dumps(v, ensure_ascii=False)
            implicit = 'tag:yaml.org,2002:str'
        elif style == "'":
            if any(ord(ch) < 32 for ch in v):
                raise Unsupported('control')
            body = "'" + v.replace("'", "''") + "'"
            implicit = 'tag:yaml.org,2002:str'
        else:
            raise Unsupported(style)
        return body if n.tag == implicit else tagtext(n.tag) + ' ' + body

    def flow(n):
        if id(n) in seen:
            raise Unsupported('shared')
        seen.add(id(n))
        if isinstance(n, yaml.ScalarNode):
            return scalar(n)
        if isinstance(n, yaml.SequenceNode):
            pre = '' if n.tag == T_SEQ else tagtext(n.tag) + ' '
            return pre + '[' + ', '.join(flow(x) for x in n.value) + ']'
        pre = '' if n.tag == T_MAP else tagtext(n.tag) + ' '
        parts = []
        for k, v in n.value:
            if not isinstance(k, yaml.ScalarNode):
                raise Unsupported('complex key')
            parts.append(flow(k) + ': ' + flow(v))
        return pre + '{' + ', '.join(parts) + '}'

    def block(n, ind, lines, head):
        """Emit n; `head` is the text already on the current line."""
        if isinstance(n, yaml.ScalarNode) or n.flow_style or not n.value:
            lines.append(head + flow(n))
            return
        if id(n) in seen:
            raise Unsupported('shared')
        seen.add(id(n))
        std = T_SEQ if isinstance(n, yaml.SequenceNode) else T_MAP
        if n.tag != std:
            head = head + tagtext(n.tag)
        if head.strip():
            lines.append(head.rstrip())
        pad = ' ' * ind
        if isinstance(n, yaml.SequenceNode):
            for x in n.value:
                if isinstance(x, yaml.ScalarNode) or x.flow_style or \
                        not x.value:
                    lines.append(pad + '- ' + flow(x))
                else:
                    block(x, ind + 2, lines, pad + '- ')
            return
        for k, v in n.value:
            if not isinstance(k, yaml.ScalarNode):
                raise Unsupported('complex key')
            kt = scalar(k)
            if isinstance(v, yaml.ScalarNode) or v.flow_style or not v.value:
                lines.append(pad + kt + ': ' + flow(v))
            else:
                block(v, ind + 2, lines, pad + kt + ': ')
    try:
        lines = []
        if isinstance(tree, yaml.ScalarNode) or tree.flow_style or \
                not tree.value:
            lines.append(flow(tree))
        else:
            block(tree, 0, lines, '')
        # "- " items / "key: " heads that open a nested block keep their
        # children on the following lines, indented
        return '\n'.join(lines) + '\n'
    except Unsupported:
        return None
    finally:
        ldr.dispose()


def tree_to_text(tree, loader_cls) -> str:
    """Serialise a node tree to YAML text and check that the real composer
    gives the same (kind, tag, value, sharing) tree back."""
    if tree is None:
        return ''
    if isinstance(tree, yaml.ScalarNode) and tree.value == '':
        # PyYAML cannot emit an empty plain scalar at the top level
        import re
        if not re.fullmatch(r"[\w:,./!-]+", tree.tag):
            raise HarnessError('empty root scalar with tag %r' % tree.tag)
        text = '--- !<%s> ""\n' % tree.tag
    else:
        text = yaml.serialize(tree, Dumper=_dumper_for(loader_cls),
                              allow_unicode=True, width=10000)
    def composes_back(t, styles=False):
        ldr = loader_cls(t)
        try:
            back = _REAL_COMPOSER_GSN(ldr)
            return tree_sig(back) == tree_sig(tree) and (
                not styles or _styles(back) == _styles(tree))
        except yaml.YAMLError:
            return False
        finally:
            ldr.dispose()
    if STYLE_FAITHFUL[0] and tree is not None:
        st = simple_text(tree, loader_cls)
        if st is not None and composes_back(st, styles=True):
            return st
    # the symbolic marks point into a line that holds format metacharacters
    # (_SNIPPET); give every real line the same property through a comment
    noisy = ''.join(
        (ln + '    # {0} {x} {} %s %(k)s %d { }}\n') if ln.strip() else
        ln + '\n' for ln in text.split('\n')[:-1])
    if composes_back(noisy):
        return noisy
    if not composes_back(text):
        raise HarnessError(
            'tree is not expressible as text:\n%s\n%r' % (
                text, tree_sig(tree)))
    return text


def load_tree(load_fn, tree):
    """Drive the PUBLIC load function on the document `tree`.

    symbolic: the composer stub hands `tree` to the real
    Loader.get_single_node.  replay: the tree is serialised to text and the
    unstubbed load function parses it."""
    if SYMBOLIC:
        _TREE[0] = tree
        return load_fn('')
    text = tree_to_text(tree, load_fn.loader)
    note(yaml_text=text)
    return load_fn(text)


def load_tree_all(load_fn, tree):
    """The same document read through PyYAML's multi-document interface
    with the load function's Loader class (yaml.load_all -> Loader.get_node,
    the second hook yatiml installs); returns the first document."""
    if SYMBOLIC:
        _TREE[0] = tree
        _PENDING[0] = True
        return list(yaml.load_all('', Loader=load_fn.loader))[0]
    text = tree_to_text(tree, load_fn.loader)
    note(yaml_text=text, read_with='yaml.load_all(text, Loader=load.loader)')
    return list(yaml.load_all(text, Loader=load_fn.loader))[0]


def plain(v, dict_kind=True):
    """Structural view of a loaded value (for comparisons/reports).
    dict_kind=False: an OrderedDict and a dict with the same items in the
    same order are the same (Python's == says so too)."""
    import enum
    import pathlib
    from collections import OrderedDict, UserString
    if isinstance(v, float) and v != v:
        return ('float', 'nan')
    if isinstance(v, (bool, int, float, str, bytes, type(None))):
        return (type(v).__name__, v)
    if isinstance(v, enum.Enum):
        return ('enum', type(v).__name__, v.name)
    if isinstance(v, UserString):
        return ('ustr', type(v).__name__, str(v))
    if isinstance(v, pathlib.PurePath):
        return ('path', str(v))
    if isinstance(v, list):
        return ('list', [plain(x, dict_kind) for x in v])
    if isinstance(v, dict):
        return ('dict', dict_kind and type(v) is OrderedDict,
                [(plain(k, dict_kind), plain(x, dict_kind))
                 for k, x in v.items()])
    import datetime
    if isinstance(v, (datetime.date, datetime.datetime)):
        return ('date', v.isoformat())
    d = getattr(v, '__dict__', None)
    if d is not None:
        return ('obj', type(v).__name__,
                [(k, plain(x, dict_kind)) for k, x in d.items()])
    return ('other', type(v).__name__, repr(v))
