"""A module that records being imported or called.  The C04 harness puts its
directory on sys.path and injects tags such as
!!python/object/apply:verif_canary.fire into documents: nothing named by a
document may ever be imported or called."""
import os

FIRED = []
IMPORTED = True
_flag = os.environ.get('VERIF_CANARY_FLAG')
if _flag:
    open(_flag, 'a').write('imported\n')


def fire(*a, **kw):
    FIRED.append((a, kw))
    if _flag:
        open(_flag, 'a').write('fired\n')
    return 'fired'


class Boom:
    def __init__(self, *a, **kw):
        FIRED.append(('Boom', a, kw))

    def __setstate__(self, st):
        FIRED.append(('Boom.__setstate__', st))
