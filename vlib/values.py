"""Values to dump (C05, C06, C07, C12): class models with, per model, a base
value and a list of FACTORS; a factor is a list of alternatives for one part
of the value.  A solver-chosen (factor, alternative) pair -- or two of them --
selects the value; per path the value is concrete, so the real PyYAML
emitter/scanner run on it.
"""
import datetime
import enum
import pathlib
from collections import OrderedDict, UserString
from typing import Any, Dict, List, Optional, Union

import yatiml
from vlib.common import HarnessError, pick

# strings that look like something else, YAML syntax, odd characters
STRS = ['abc', '', '1e5', '\u00e9', '\U0001f642', '1.2.3', 'yes', 'no', 'true', 'True', 'null', '~',
        '2001-01-01', ': ', '- x', '#c', 'a: b', "it's", '"q"', ' lead',
        'trail ', 'multi\nline', '0x1F', '1_000', '.inf', '.nan', '<<', '=',
        '|', '>', '%', '@', '`', '!tag', '&a', '*a', '? ', '[x]', '{x}',
        'é', '\t', '\x07', ' ', '\U0001f642', 'on', 'off', 'y', 'n',
        '0o17', '017', '+1', '1:30', '.5', '5.', '-', '---', '...', '1E3',
        '.0E0', '+1e-5', '12', '1.5', 'NULL', 'FALSE', '\\', 'a\\nb', ',',
        '\ud800',
        # longer than the emitter's line width, with places to fold
        'word ' * 20 + 'end', 'caf\u00e9 ' * 18 + '1e5']
INTS = [0, 1, -1, 7, 10 ** 20, -(2 ** 63), 17, 100]
FLOATS = [1.5, 0.0, -0.0, 1.0, -2.25, 1e17, 1e-7, 1e300, 5e-324, 0.1,
          float('inf'), float('-inf'), float('nan')]
DATES = [datetime.date(2001, 12, 14), datetime.date(1, 1, 1),
         datetime.date(9999, 12, 31),
         datetime.datetime(2001, 12, 14, 21, 59, 43),
         datetime.datetime(2001, 12, 14, 21, 59, 43, 100000),
         datetime.datetime(2001, 12, 14, 0, 0, 0)]
PATHS = [pathlib.Path('/tmp/x'), pathlib.Path('a/b'), pathlib.Path('.'),
         pathlib.Path('1e5'), pathlib.Path('true'), pathlib.Path('/'),
         pathlib.Path('a b/c:d')]


# ------------------------------------------------------------------ classes
class Sub:
    def __init__(self, x: int) -> None:
        self.x = x


class Doc:
    def __init__(self, a: int, b: str, c: float = 1.0,
                 d: Optional[bool] = None, e: Optional[Sub] = None) -> None:
        self.a, self.b, self.c, self.d, self.e = a, b, c, d, e


class Color(enum.Enum):
    red = 1
    green = 2
    true = 3
    yes = 4
    null = 5
    n1e5 = 6


Color2 = enum.Enum('Color2', {'1e5': 1, 'a b': 2, 'ok': 3})   # odd names


class Unit(str, enum.Enum):
    """the str-mixin idiom: an Enum first, a str second."""
    metre = 'm'
    second = 's'


class Ident(str):
    pass


class UStr(UserString):
    pass


class Ver(yatiml.String):
    def __init__(self, s: str) -> None:
        a, b = s.split('.')
        self.major, self.minor = int(a), int(b)

    def __str__(self) -> str:
        return '%d.%d' % (self.major, self.minor)

    def __eq__(self, o: Any) -> bool:
        return isinstance(o, Ver) and str(o) == str(self)

    def __hash__(self) -> int:
        return hash(str(self))


class Styled:
    def __init__(self, col: Color, name: Ident, u: Optional[UStr] = None,
                 v: Optional[Ver] = None, cols: Optional[List[Color]] = None,
                 by: Optional[Dict[Ident, int]] = None,
                 bu: Optional[Dict[UStr, str]] = None,
                 bv: Optional[Dict[Ver, int]] = None,
                 c2: Optional[Color2] = None) -> None:
        self.col, self.name, self.u, self.v = col, name, u, v
        self.cols, self.by, self.bu, self.bv, self.c2 = cols, by, bu, bv, c2


class When:
    def __init__(self, d: datetime.date, p: pathlib.Path,
                 ds: Optional[List[datetime.date]] = None,
                 ps: Optional[List[pathlib.Path]] = None) -> None:
        self.d, self.p, self.ds, self.ps = d, p, ds, ps


class Loose:
    def __init__(self, a: Any, b=None,
                 _yatiml_extra: Optional[OrderedDict] = None) -> None:
        self.a, self.b = a, b
        self._yatiml_extra = (OrderedDict() if _yatiml_extra is None
                              else _yatiml_extra)


class Mid:
    """_yatiml_extra is not the last parameter."""
    def __init__(self, a: int, _yatiml_extra: OrderedDict, z: int = 0,
                 unit: Optional[Unit] = None) -> None:
        self.a, self._yatiml_extra, self.z, self.unit = (
            a, _yatiml_extra, z, unit)


class Opt:
    """Attributes equal to their defaults are dropped when dumping."""
    def __init__(self, a: int, b: Optional[int] = None,
                 c: Union[int, str] = 'red', d: float = 1.5,
                 e: bool = False, s: str = 'dflt',
                 l: Optional[List[int]] = None,                # noqa: E741
                 t: Union[int, str, None] = None,
                 u: Union[int, str, bool] = 7,
                 m: Optional[Dict[str, int]] = None,
                 n: Optional[List[str]] = None) -> None:
        self.a, self.b, self.c, self.d, self.e, self.s = a, b, c, d, e, s
        self.l = [] if l is None else l
        self.t, self.u = t, u
        self.m, self.n = m, n       # an EMPTY collection is not None

    _yatiml_defaults = {'l': []}  # type: Dict[str, Any]

    @classmethod
    def _yatiml_sweeten(cls, node: yatiml.Node) -> None:
        node.remove_attributes_with_default_values(cls)


class Item:
    def __init__(self, item_id: str, price: float,
                 description: Optional[str] = None) -> None:
        self.item_id, self.price, self.description = (
            item_id, price, description)


class Order:
    """sweeten and savorize are inverses (sequence <-> mapping, dashes)."""
    def __init__(self, customer_name: str, items: List[Item],
                 note: str = 'none') -> None:
        self.customer_name, self.items, self.note = (
            customer_name, items, note)

    @classmethod
    def _yatiml_recognize(cls, node: yatiml.UnknownNode) -> None:
        # the seasoned form is not what the signature says: see the docs,
        # "Customising recognition"
        node.require_mapping()

    @classmethod
    def _yatiml_savorize(cls, node: yatiml.Node) -> None:
        node.dashes_to_unders_in_keys()
        node.map_attribute_to_seq('items', 'item_id', 'price')

    @classmethod
    def _yatiml_sweeten(cls, node: yatiml.Node) -> None:
        node.seq_attribute_to_map('items', 'item_id', 'price')
        node.unders_to_dashes_in_keys()


class Employee:
    def __init__(self, name: str, role: str, hours: int = 40) -> None:
        self.name, self.role, self.hours = name, role, hours


class Company:
    def __init__(self, employees: Dict[str, Employee]) -> None:
        self.employees = employees

    @classmethod
    def _yatiml_recognize(cls, node: yatiml.UnknownNode) -> None:
        node.require_attribute('employees')

    @classmethod
    def _yatiml_savorize(cls, node: yatiml.Node) -> None:
        node.map_attribute_to_index('employees', 'name', 'role')

    @classmethod
    def _yatiml_sweeten(cls, node: yatiml.Node) -> None:
        node.index_attribute_to_map('employees', 'name', 'role')


class Employee2:
    """The key attribute is a string-like CLASS, the Dict key a plain str."""
    def __init__(self, name: UStr, role: str) -> None:
        self.name, self.role = name, role


class Company2:
    def __init__(self, employees: Dict[str, Employee2]) -> None:
        self.employees = employees

    @classmethod
    def _yatiml_recognize(cls, node: yatiml.UnknownNode) -> None:
        node.require_attribute('employees')

    @classmethod
    def _yatiml_savorize(cls, node: yatiml.Node) -> None:
        node.map_attribute_to_index('employees', 'name', 'role')

    @classmethod
    def _yatiml_sweeten(cls, node: yatiml.Node) -> None:
        node.index_attribute_to_map('employees', 'name', 'role')


class Light(enum.Enum):
    """dumped lower-case, loaded upper-case (docs recipe)."""
    ON = 1
    OFF = 2
    BLINK = 3

    @classmethod
    def _yatiml_savorize(cls, node: yatiml.Node) -> None:
        if node.is_scalar(str):
            node.set_value(str(node.get_value()).upper())

    @classmethod
    def _yatiml_sweeten(cls, node: yatiml.Node) -> None:
        node.set_value(str(node.get_value()).lower())


class Lamp:
    def __init__(self, state: Light, others: Optional[List[Light]] = None
                 ) -> None:
        self.state, self.others = state, others


class Pair:
    def __init__(self, x: Sub, y: Sub, z: Optional[List[Sub]] = None) -> None:
        self.x, self.y, self.z = x, y, z


class Hidden:
    """_yatiml_attributes decides what is dumped."""
    def __init__(self, a: int, b: str = 'b') -> None:
        self.a, self.b = a, b
        self._cache = 12345

    def _yatiml_attributes(self) -> OrderedDict:
        return OrderedDict([('b', self.b), ('a', self.a)])


class Base:
    def __init__(self, p: int) -> None:
        self.p = p


class Derived(Base):
    def __init__(self, p: int, q: str, r: Optional[List[Base]] = None
                 ) -> None:
        super().__init__(p)
        self.q, self.r = q, r


class Span:
    """0-based start in Python, 1-based in the file: a sweeten/savorize
    pair that is NOT idempotent, defined on a registered base class only."""
    def __init__(self, start: int, end: int) -> None:
        self.start, self.end = start, end

    @classmethod
    def _yatiml_savorize(cls, node: yatiml.Node) -> None:
        if node.is_mapping() and node.has_attribute_type('start', int):
            node.set_attribute(
                'start', int(node.get_attribute('start').get_value()) - 1)

    @classmethod
    def _yatiml_sweeten(cls, node: yatiml.Node) -> None:
        node.set_attribute(
            'start', int(node.get_attribute('start').get_value()) + 1)


class NamedSpan(Span):
    """Relies on the seasoning of its base."""
    def __init__(self, start: int, end: int, name: str) -> None:
        super().__init__(start, end)
        self.name = name


class DeepSpan(NamedSpan):
    """Two levels below the class that defines the hooks; own sweeten that
    is not idempotent either (appends a marker savorize strips)."""
    def __init__(self, start: int, end: int, name: str, depth: int
                 ) -> None:
        super().__init__(start, end, name)
        self.depth = depth

    @classmethod
    def _yatiml_savorize(cls, node: yatiml.Node) -> None:
        if node.is_mapping() and node.has_attribute_type('name', str):
            n = str(node.get_attribute('name').get_value())
            if n.endswith('+'):
                node.set_attribute('name', n[:-1])

    @classmethod
    def _yatiml_sweeten(cls, node: yatiml.Node) -> None:
        node.set_attribute(
            'name', str(node.get_attribute('name').get_value()) + '+')


class Track:
    def __init__(self, spans: List[Span], by: Optional[Dict[str, Span]] = None
                 ) -> None:
        self.spans, self.by = spans, by


# ------------------------------------------------------------------ models
def _doc(**kw):
    d = dict(a=7, b='abc', c=1.5, d=None, e=None)
    d.update(kw)
    return Doc(**d)


def _styled(**kw):
    d = dict(col=Color.red, name=Ident('abc'))
    d.update(kw)
    return Styled(**d)


def _shared_keys(mode):
    """String-like objects referenced more than once, also as keys."""
    k, w = UStr('alice'), Ver('1.2')
    if mode == 0:       # the same key object as a value and as a key
        return _styled(u=k, bu={k: 'v'})
    if mode == 1:       # a yatiml.String shared between value and key
        return _styled(v=w, bv={w: 1})
    if mode == 2:       # the aliased key is not the first key
        return _styled(u=k, bu={UStr('bob'): 'x', k: 'alice'})
    return _styled(u=UStr('a'), bu={UStr('a'): 'a'})


def _shared_pair(mode):
    s = Sub(3)
    if mode == 0:
        return Pair(s, s)
    if mode == 1:
        return Pair(s, Sub(3), [s, s])
    return Pair(Sub(1), Sub(2), [])


# name, doc type, classes, [(factor name, [alternative values...])], make
MODELS = [
    ('doc', Doc, [Doc, Sub], [
        ('a', [lambda i=i: _doc(a=i) for i in INTS]),
        ('b', [lambda s=s: _doc(b=s) for s in STRS]),
        ('c', [lambda f=f: _doc(c=f) for f in FLOATS]),
        ('d', [lambda: _doc(d=True), lambda: _doc(d=False)]),
        ('e', [lambda: _doc(e=Sub(3)), lambda: _doc(e=Sub(-1), d=False)]),
    ]),
    ('styled', Styled, [Styled, Color, Color2, Ident, UStr, Ver], [
        ('col', [lambda c=c: _styled(col=c) for c in Color]),
        ('name', [lambda s=s: _styled(name=Ident(s)) for s in STRS[:20]]),
        ('u', [lambda s=s: _styled(u=UStr(s)) for s in STRS]),
        ('v', [lambda: _styled(v=Ver('1.2')), lambda: _styled(v=Ver('0.0'))]),
        ('cols', [lambda: _styled(cols=[]),
                  lambda: _styled(cols=[Color.true, Color.yes, Color.null,
                                        Color.n1e5])]),
        ('by', [lambda s=s: _styled(by={Ident(s): 1, Ident('k'): 2})
                for s in STRS[:24]]),
        ('bu', [lambda s=s: _styled(bu={UStr(s): s}) for s in STRS[:12]]),
        ('bv', [lambda: _styled(bv={Ver('1.2'): 1, Ver('0.1'): 2})]),
        ('c2', [lambda c=c: _styled(c2=c) for c in Color2]),
        ('shared', [lambda m=m: _shared_keys(m) for m in range(4)]),
    ]),
    ('when', When, [When], [
        ('d', [lambda d=d: When(d, PATHS[0]) for d in DATES]),
        ('p', [lambda p=p: When(DATES[0], p) for p in PATHS]),
        ('ds', [lambda: When(DATES[0], PATHS[0], list(DATES), list(PATHS))]),
    ]),
    ('loose', Loose, [Loose], [
        ('a', [lambda: Loose(1), lambda: Loose([1, 'a', None, 1.5, True]),
               lambda: Loose({'k': [1, {'j': 'x'}], '1': 2}),
               lambda: Loose(OrderedDict([('z', 1), ('a', 2)])),
               lambda: Loose(None), lambda: Loose([]), lambda: Loose({}),
               lambda: Loose([[], {}, [[]]])]),
        ('a_str', [lambda s=s: Loose(s) for s in STRS]),
        ('b', [lambda s=s: Loose(1, {'k': s}) for s in STRS[:20]]),
        ('extra', [lambda: Loose(1, None, OrderedDict([('zz', 1)])),
                   lambda: Loose(1, None, OrderedDict(
                       [('b2', [1, 2]), ('a2', {'x': 'y'}), ('1e5', 'v')]))]),
        ('extra_key', [lambda s=s: Loose(1, None, OrderedDict([(s, 1)]))
                       for s in STRS[:24] if s != '']),
    ]),
    ('opt', Opt, [Opt], [
        ('b', [lambda: Opt(1, b=5), lambda: Opt(1, b=0)]),
        ('c', [lambda: Opt(1, c=7), lambda: Opt(1, c='blue'),
               lambda: Opt(1, c='7'), lambda: Opt(1, c=0)]),
        ('d', [lambda: Opt(1, d=2.5), lambda: Opt(1, d=1.0),
               lambda: Opt(1, d=float('inf'))]),
        ('e', [lambda: Opt(1, e=True)]),
        ('s', [lambda: Opt(1, s=''), lambda: Opt(1, s='1.5'),
               lambda: Opt(1, s='null')]),
        ('l', [lambda: Opt(1, l=[1]), lambda: Opt(1, l=[])]),
        # strings that spell a default which is not a string
        ('t', [lambda: Opt(1, t='None'), lambda: Opt(1, t='null'),
               lambda: Opt(1, t=''), lambda: Opt(1, t=0)]),
        ('u', [lambda: Opt(1, u='7'), lambda: Opt(1, u=7),
               lambda: Opt(1, u=True), lambda: Opt(1, u='True'),
               lambda: Opt(1, u=1)]),
        ('m', [lambda: Opt(1, m={}), lambda: Opt(1, m={'k': 1})]),
        ('n', [lambda: Opt(1, n=[]), lambda: Opt(1, n=['']),
               lambda: Opt(1, n=[], m={})]),
        ('all', [lambda: Opt(1, 5, 7, 2.5, True, 'x', [1]),
                 lambda: Opt(1)]),
    ]),
    ('order', Order, [Order, Item], [
        ('items', [lambda: Order('x', []),
                   lambda: Order('x', [Item('i1', 1.5)]),
                   lambda: Order('x', [Item('i1', 1.5),
                                       Item('i2', 2.5, 'desc')]),
                   lambda: Order('x', [Item('1e5', 1.0), Item('true', 2.0)])
                   ]),
        ('name', [lambda s=s: Order(s, [Item('i', 1.0)], 'n')
                  for s in STRS[:16]]),
    ]),
    ('company', Company, [Company, Employee], [
        ('employees', [
            lambda: Company({}),
            lambda: Company({'Mary': Employee('Mary', 'Director')}),
            lambda: Company({'Mary': Employee('Mary', 'Director'),
                             'Vishnu': Employee('Vishnu', 'Sales', 32)}),
            lambda: Company({'1e5': Employee('1e5', 'true')})]),
    ]),
    ('company2', Company2, [Company2, Employee2, UStr], [
        ('employees', [
            lambda: Company2({}),
            lambda: Company2({'Mary': Employee2(UStr('Mary'), 'Director')}),
            lambda: Company2({'a': Employee2(UStr('a'), 'x'),
                              '1e5': Employee2(UStr('1e5'), 'true')})]),
    ]),
    ('lamp', Lamp, [Lamp, Light], [
        ('state', [lambda s=s: Lamp(s) for s in Light]),
        ('others', [lambda: Lamp(Light.ON, [Light.OFF, Light.BLINK])]),
    ]),
    ('pair', Pair, [Pair, Sub], [
        ('shared', [lambda m=m: _shared_pair(m) for m in range(3)]),
    ]),
    ('derived', Derived, [Derived, Base], [
        ('r', [lambda: Derived(1, 'q'),
               lambda: Derived(1, 'q', [Base(2), Derived(3, 'w')])]),
    ]),
    ('mid', Mid, [Mid, Unit], [
        ('extra', [lambda: Mid(1, OrderedDict()),
                   lambda: Mid(1, OrderedDict([('x1', 1), ('x2', [2])]), 5),
                   lambda: Mid(1, OrderedDict([('b', 'v')]), 0, Unit.metre)]),
        ('unit', [lambda u=u: Mid(2, OrderedDict(), 1, u) for u in Unit]),
    ]),
    ('track', Track, [Track, Span, NamedSpan, DeepSpan], [
        ('spans', [lambda: Track([]),
                   lambda: Track([Span(0, 10), Span(10, 25)]),
                   lambda: Track([NamedSpan(0, 10, 'exon1')]),
                   lambda: Track([Span(3, 4), NamedSpan(-1, 25, 'x+')]),
                   lambda: Track([DeepSpan(0, 1, 'd', 0)]),
                   lambda: Track([DeepSpan(5, 6, 'e+', 2), Span(1, 1),
                                  NamedSpan(2, 2, '')])]),
        ('by', [lambda: Track([], {}),
                lambda: Track([], {'a': NamedSpan(0, 1, 'n'),
                                   'b': DeepSpan(7, 8, 'z', 1)}),
                lambda: Track([Span(1, 2)], {'1e5': Span(0, 0)})]),
    ]),
    ('top_list', List[Union[int, str]], [], [
        ('v', [lambda: [], lambda: [1, 'a', 2],
               lambda: ['1', 'true', '']]),
    ]),
    ('top_dict', Dict[str, float], [], [
        ('v', [lambda: {}, lambda: {'a': 1.5, 'b': float('inf')},
               lambda: {'1': 0.0, 'null': -0.0}]),
    ]),
]
MODEL_IDX = {m[0]: i for i, m in enumerate(MODELS)}


# ---- dump-only models (C06): classes that do not load back by themselves
class PlainAttrs:
    """_yatiml_attributes returns a PLAIN dict whose keys are not in
    alphabetical order: 'dict order kept'."""
    def __init__(self, a: int) -> None:
        self.a = a

    def _yatiml_attributes(self) -> dict:
        return {'zeta': self.a, 'alpha': [self.a], 'mid': {'y': 1, 'b': 2}}


class Postcode:
    """A 'parsed class': sweeten REPLACES the mapping by a scalar."""
    def __init__(self, digits: int, letters: str) -> None:
        self.digits, self.letters = digits, letters

    @classmethod
    def _yatiml_sweeten(cls, node: yatiml.Node) -> None:
        node.set_value('{} {}'.format(
            node.get_attribute('digits').get_value(),
            node.get_attribute('letters').get_value()))


class Cur(enum.Enum):
    EUR = 1
    USD = 2


class Money:
    """Replaced by a scalar too; the LAST attribute is an object PyYAML may
    alias (an enum member)."""
    def __init__(self, amount: int, currency: Cur) -> None:
        self.amount, self.currency = amount, currency

    @classmethod
    def _yatiml_sweeten(cls, node: yatiml.Node) -> None:
        node.set_value('{} {}'.format(
            node.get_attribute('amount').get_value(),
            node.get_attribute('currency').get_value()))


class Upper(UserString):
    @classmethod
    def _yatiml_sweeten(cls, node: yatiml.Node) -> None:
        node.set_value(str(node.get_value()).upper())


class Addr:
    def __init__(self, code: Postcode, codes: List[Postcode],
                 price: Optional[Money] = None) -> None:
        self.code, self.codes, self.price = code, codes, price


class Special:
    """sweeten adds scalars of every kind through the helper functions."""
    def __init__(self, x: int) -> None:
        self.x = x

    @classmethod
    def _yatiml_sweeten(cls, node: yatiml.Node) -> None:
        x = int(node.get_attribute('x').get_value())
        node.set_attribute('f', [float('inf'), float('-inf'), float('nan'),
                                 1e20, 1e-7, 1.5, 0.0][x % 7])
        node.set_attribute('n', None)
        node.set_attribute('b', x % 2 == 0)
        node.set_attribute('s', ['1e5', 'true', '', 'null'][x % 4])


class Nulled:
    def __init__(self, x: int) -> None:
        self.x = x

    @classmethod
    def _yatiml_sweeten(cls, node: yatiml.Node) -> None:
        x = int(node.get_attribute('x').get_value())
        node.set_value([None, float('inf'), 1e20, True, 7, float('nan')][
            x % 6])


def _special_projection(x):
    return OrderedDict([
        ('x', x),
        ('f', [float('inf'), float('-inf'), float('nan'), 1e20, 1e-7, 1.5,
               0.0][x % 7]),
        ('n', None), ('b', x % 2 == 0),
        ('s', ['1e5', 'true', '', 'null'][x % 4])])


def _nulled_projection(x):
    return [None, float('inf'), 1e20, True, 7, float('nan')][x % 6]


def _codes(mode):
    p, q = Postcode(1098, 'XG'), Postcode(1, '1e5')
    if mode == 0:
        return p
    if mode == 1:
        return [p, p]                   # the same object twice
    if mode == 2:
        return {'a': p, 'b': [p], 'c': q}
    if mode == 3:
        return Addr(p, [p, q, p])
    if mode == 4:
        u = Upper('abc')
        return [u, Upper('x'), u]
    if mode == 5:       # aliasable last attribute, repeated later
        return [Money(10, Cur.EUR), Money(5, Cur.EUR)]
    if mode == 6:
        m = Money(1, Cur.USD)
        return [m, Money(2, Cur.EUR), m, Cur.EUR]
    return Addr(p, [], Money(3, Cur.EUR))


class Collide:
    """An extra attribute named like a constructor parameter: what the text
    holds is not pinned, but dumping must not change the object."""
    def __init__(self, a: int, b: int = 0,
                 _yatiml_extra: Optional[OrderedDict] = None) -> None:
        self.a, self.b = a, b
        self._yatiml_extra = (OrderedDict() if _yatiml_extra is None
                              else _yatiml_extra)


class Company3:
    """An employee object may also be referenced outside the index."""
    def __init__(self, employees: Dict[str, Employee],
                 boss: Optional[Employee] = None) -> None:
        self.employees, self.boss = employees, boss

    @classmethod
    def _yatiml_sweeten(cls, node: yatiml.Node) -> None:
        node.index_attribute_to_map('employees', 'name')


class Team3:
    def __init__(self, members: List[Employee],
                 lead: Optional[Employee] = None) -> None:
        self.members, self.lead = members, lead

    @classmethod
    def _yatiml_sweeten(cls, node: yatiml.Node) -> None:
        node.seq_attribute_to_map('members', 'name')


def _staff(mode):
    m, v = Employee('Mary', 'Director'), Employee('Vishnu', 'Sales', 32)
    if mode == 0:
        return Company3({'Mary': m, 'Vishnu': v})
    if mode == 1:
        return Company3({'Mary': m, 'Vishnu': v}, boss=m)
    if mode == 2:
        return Team3([m, v], lead=v)
    if mode == 3:
        return Team3([m], lead=None)
    return [Company3({'Mary': m}), m]


DUMP_ONLY_MODELS = [
    ('staff', Any, [Company3, Team3, Employee], [
        ('v', [lambda k=k: _staff(k) for k in range(5)])]),
    ('hidden', Hidden, [Hidden], [
        ('v', [lambda: Hidden(1), lambda: Hidden(2, 'x')])]),
    ('plainattrs', PlainAttrs, [PlainAttrs], [
        ('v', [lambda: PlainAttrs(1), lambda: [PlainAttrs(2)]])]),
    ('codes', Any, [Postcode, Money, Cur, Upper, Addr], [
        ('v', [lambda m=m: _codes(m) for m in range(8)])]),
    ('special', Any, [Special, Nulled], [
        ('special', [lambda x=x: Special(x) for x in range(7)]),
        ('nulled', [lambda x=x: [Nulled(x)] for x in range(6)]),
        ('top', [lambda x=x: Nulled(x) for x in range(6)])]),
    # values no representer is registered for: both flavours of a dump
    # function must refuse them alike (C12)
    ('pure', Any, [When], [
        ('v', [lambda: When(DATES[0], pathlib.PurePosixPath('a/b')),
               lambda: [pathlib.PurePosixPath('x')],
               lambda: {'k': pathlib.PureWindowsPath('c:/x')},
               lambda: [1, {'s': {1, 2}}], lambda: (1, 2),
               lambda: When(DATES[0], PATHS[1])])]),
    ('collide', Collide, [Collide], [
        ('v', [lambda: Collide(10, 1, OrderedDict([('b', 5), ('c', 6)])),
               lambda: Collide(10, 1, OrderedDict([('z', 1), ('a', 5)])),
               lambda: Collide(1, 2, OrderedDict([('k', [1])]))])]),
]


def value(mi: int, f: int, x: int):
    """Alternative x of factor f of model mi (concrete indices via pick), or
    None when out of range."""
    name, dt, classes, factors = (MODELS + DUMP_ONLY_MODELS)[mi]
    if f >= len(factors):
        return None
    alts = pick([fa[1] for fa in factors], f)
    if x >= len(alts):
        return None
    return pick(alts, x)()


def nfactors():
    return [(len(m[3]), [len(fa[1]) for fa in m[3]]) for m in MODELS]


_FN = {}


def functions(mi: int):
    """(load, dumps, dumps_json, dump, dump_json) for model mi."""
    if mi not in _FN:
        name, dt, classes, _ = (MODELS + DUMP_ONLY_MODELS)[mi]
        others = [c for c in classes if c is not dt]
        _FN[mi] = (yatiml.load_function(dt, *others),
                   yatiml.dumps_function(*classes),
                   yatiml.dumps_json_function(*classes),
                   yatiml.dump_function(*classes),
                   yatiml.dump_json_function(*classes))
    return _FN[mi]


# ---------------------------------------------------------------------------
# two factors at a time (thorough tier): models whose factors are keyword
# arguments of a builder can be combined

def _opt(**kw):
    return Opt(1, **kw)


COMBINE = {
    'doc': (_doc, [
        ('a', [{'a': i} for i in INTS]),
        ('b', [{'b': s} for s in STRS]),
        ('c', [{'c': f} for f in FLOATS]),
        ('d', [{'d': True}, {'d': False}]),
        ('e', [{'e': Sub(3)}, {'e': Sub(-1)}]),
    ]),
    'styled': (_styled, [
        ('col', [{'col': c} for c in Color]),
        ('name', [{'name': Ident(s)} for s in STRS[:12]]),
        ('u', [{'u': UStr(s)} for s in STRS[:40]]),
        ('v', [{'v': Ver('1.2')}]),
        ('cols', [{'cols': [Color.true, Color.yes, Color.null]}]),
        ('by', [{'by': {Ident(s): 1, Ident('k'): 2}} for s in STRS[:12]]),
        ('bu', [{'bu': {UStr(s): s}} for s in STRS[:12]]),
        ('c2', [{'c2': c} for c in Color2]),
    ]),
    'opt': (_opt, [
        ('b', [{'b': 5}, {'b': 0}, {'b': None}]),
        ('c', [{'c': 7}, {'c': 'blue'}, {'c': '7'}, {'c': 0}, {'c': 'red'}]),
        ('d', [{'d': 2.5}, {'d': 1.0}, {'d': 1.5}]),
        ('e', [{'e': True}, {'e': False}]),
        ('s', [{'s': ''}, {'s': '1.5'}, {'s': 'null'}, {'s': 'dflt'}]),
        ('l', [{'l': [1]}, {'l': []}]),
        ('t', [{'t': 'None'}, {'t': 'null'}, {'t': 0}]),
        ('u', [{'u': '7'}, {'u': True}, {'u': 1}]),
        ('m', [{'m': {}}, {'m': {'k': 1}}]),
        ('n', [{'n': []}]),
    ]),
}
COMBINE_MODELS = [MODEL_IDX[n] for n in COMBINE]


def value2(mi: int, f1: int, x1: int, f2: int, x2: int):
    """Two factors of model mi changed at once (f1 < f2), or None."""
    name = MODELS[mi][0]
    if name not in COMBINE:
        return None
    build, factors = COMBINE[name]
    if not f1 < f2 < len(factors):
        return None
    a1 = pick([fa[1] for fa in factors], f1)
    a2 = pick([fa[1] for fa in factors], f2)
    if x1 >= len(a1) or x2 >= len(a2):
        return None
    kw = dict(pick(a1, x1))
    kw.update(pick(a2, x2))
    return build(**kw)


def combine_slices():
    """slice = model index * 16 + first factor."""
    return [mi * 16 + f for mi in COMBINE_MODELS
            for f in range(len(COMBINE[MODELS[mi][0]][1]) - 1)]
