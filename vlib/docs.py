"""Document trees for the full-pipeline harnesses (DESIGN 2.1).

A document is written as a nested spec and turned into a yaml.Node tree with
one concrete line per node; solver-chosen *mutations* are then applied at a
solver-chosen site.  Tags are free symbolic strings wherever the harness says
so; keys and parsed scalar values come from palettes (PyYAML hashes keys and
parses values, which would realise a free string).

spec ::= ('s', tag, value) | ('q', tag, [spec...]) | ('m', tag, [(spec,
spec)...]) | ('ref', n)   -- the same object as the n-th node built so far
shorthands: S(v) str scalar, I(v) int scalar, ... M(k=spec, ...) mapping.
"""
import yaml

from vlib.common import (HarnessError, LineCounter, T_BOOL, T_FLOAT, T_INT,
                         T_MAP, T_NULL, T_SEQ, T_STR, T_TS, pick)


def S(v):
    return ('s', T_STR, v)


def I(v):  # noqa: E743
    return ('s', T_INT, str(v))


def F(v):
    return ('s', T_FLOAT, str(v))


def B(v):
    return ('s', T_BOOL, v if isinstance(v, str) else
            ('true' if v else 'false'))


def NUL():
    return ('s', T_NULL, '')


def TS(v):
    return ('s', T_TS, v)


def Q(*items, tag=T_SEQ):
    return ('q', tag, list(items))


def M(*pairs, tag=T_MAP, **kw):
    ps = [(k if isinstance(k, tuple) else S(k), v) for k, v in pairs]
    ps += [(S(k), v) for k, v in kw.items()]
    return ('m', tag, ps)


class Built:
    """A built tree plus its nodes in construction (pre)order."""

    def __init__(self):
        self.nodes = []          # every node incl. keys, preorder
        self.where = []          # (parent_node, slot) ; slot: ('item', i) |
        #                          ('key', i) | ('val', i) | ('root',)
        self.root = None
        self.lc = LineCounter()


def build(spec, built=None, parent=None, slot=('root',)):
    b = built or Built()
    kind = spec[0]
    if kind == 'ref':
        node = b.nodes[spec[1]]
        return (node, b) if built is None else node
    m = b.lc.next()
    if kind == 's':
        node = yaml.ScalarNode(spec[1], spec[2], m, m)
        b.nodes.append(node)
        b.where.append((parent, slot))
    elif kind == 'q':
        node = yaml.SequenceNode(spec[1], [], m, m)
        b.nodes.append(node)
        b.where.append((parent, slot))
        for i, it in enumerate(spec[2]):
            node.value.append(build(it, b, node, ('item', i)))
    elif kind == 'm':
        node = yaml.MappingNode(spec[1], [], m, m)
        b.nodes.append(node)
        b.where.append((parent, slot))
        for i, (k, v) in enumerate(spec[2]):
            kn = build(k, b, node, ('key', i))
            vn = build(v, b, node, ('val', i))
            node.value.append((kn, vn))
    else:
        raise HarnessError('bad spec %r' % (spec,))
    if built is None:
        b.root = node
        layout(b.root)
        return b
    return node


def layout(root) -> None:
    """Give the nodes the marks a block-style text would give them, so that
    relations between positions (a mapping starts where its first key starts,
    a scalar value sits on its key's line, a collection value starts on the
    next line) are the same under symbolic execution and at replay."""
    from vlib.common import mk
    line = [0]

    def put(node, ln, col):
        node.start_mark = node.end_mark = mk(ln, col)

    def visit(node, ln, col):
        """Lay the node out starting at (ln, col); returns the next free
        line."""
        put(node, ln, col)
        if isinstance(node, yaml.ScalarNode):
            return ln + 1
        if not node.value:
            return ln + 1                   # [] or {} on the key's line
        cur = ln
        if isinstance(node, yaml.SequenceNode):
            for it in node.value:
                cur = visit(it, cur, col + 2)
            return cur
        for k, v in node.value:
            if isinstance(k, yaml.ScalarNode):
                put(k, cur, col)
            else:
                visit(k, cur, col + 2)      # complex key
            if isinstance(v, yaml.ScalarNode) or not v.value:
                put(v, cur, col + 4)
                cur += 1
            elif isinstance(v, yaml.SequenceNode):
                cur = visit(v, cur + 1, col)
            else:
                cur = visit(v, cur + 1, col + 2)
        return cur
    visit(root, 0, 0)


def place(b: Built, idx: int, new) -> None:
    """Put node `new` where node number idx is (found by identity, so that
    it still works after an earlier mutation removed a sibling)."""
    parent, slot = b.where[idx]
    old = b.nodes[idx]
    if slot[0] == 'root':
        b.root = new
    elif slot[0] == 'item':
        parent.value = [new if x is old else x for x in parent.value]
    elif slot[0] == 'key':
        parent.value = [(new if k is old else k, v) for k, v in parent.value]
    else:
        parent.value = [(k, new if v is old else v) for k, v in parent.value]
    b.nodes[idx] = new


def drop_entry(b: Built, idx: int) -> bool:
    """Remove the mapping entry / sequence item that node idx belongs to."""
    parent, slot = b.where[idx]
    if slot[0] == 'root':
        return False
    old = b.nodes[idx]
    if slot[0] == 'item':
        parent.value = [x for x in parent.value if x is not old]
    else:
        parent.value = [(k, v) for k, v in parent.value
                        if k is not old and v is not old]
    return True


def dup_entry(b: Built, idx: int) -> bool:
    """Append a second entry with the same key (mapping) / same item."""
    parent, slot = b.where[idx]
    if slot[0] == 'root':
        return False
    old = b.nodes[idx]
    m = b.lc.next()
    if slot[0] == 'item':
        parent.value = list(parent.value) + [old]
        return True
    for k, v in list(parent.value):
        if k is old or v is old:
            k2 = yaml.ScalarNode(k.tag, k.value, m, m) if isinstance(
                k, yaml.ScalarNode) else k
            parent.value = list(parent.value) + [(k2, v)]
            return True
    return False


def add_entry(b: Built, idx: int, key: str, vspec) -> bool:
    """Append (key: value) to mapping node idx."""
    node = b.nodes[idx]
    if not isinstance(node, yaml.MappingNode):
        return False
    m = b.lc.next()
    k = yaml.ScalarNode(T_STR, key, m, m)
    v = build(vspec, b, node, ('val', len(node.value)))
    node.value = list(node.value) + [(k, v)]
    return True


def reorder(b: Built, idx: int, rot: int) -> bool:
    node = b.nodes[idx]
    if not isinstance(node, yaml.MappingNode) or len(node.value) < 2:
        return False
    r = rot % len(node.value)
    node.value = list(node.value[r:]) + list(node.value[:r])
    return True


def replacement(kind: int, tag, vsel: int, vals, lc: LineCounter):
    """A fresh node of solver-chosen kind with the given (possibly symbolic)
    tag.  kind 0 scalar (value from palette), 1 sequence, 2 mapping,
    3 empty sequence, 4 empty mapping.  The mapping is {x: 1}: the shape of the
    zoo's Sub and Trap classes, so that a class tag on it can construct."""
    m = lc.next()
    if kind == 0:
        return yaml.ScalarNode(tag, pick(vals, vsel), m, m)
    if kind == 1:
        return yaml.SequenceNode(tag, [yaml.ScalarNode(T_STR, 'x', m, m)],
                                 m, m)
    if kind == 2:
        return yaml.MappingNode(tag, [(yaml.ScalarNode(T_STR, 'x', m, m),
                                       yaml.ScalarNode(T_INT, '1', m, m))],
                                m, m)
    if kind == 3:
        return yaml.SequenceNode(tag, [], m, m)
    return yaml.MappingNode(tag, [], m, m)


CORE_TAGS = [T_STR, T_INT, T_FLOAT, T_BOOL, T_NULL, T_TS, T_MAP, T_SEQ]
PY_TAGS = ['tag:yaml.org,2002:python/object/apply:verif_canary.fire',
           'tag:yaml.org,2002:python/name:verif_canary.fire',
           'tag:yaml.org,2002:python/object:verif_canary.Boom',
           'tag:yaml.org,2002:python/object/new:verif_canary.Boom',
           'tag:yaml.org,2002:python/module:verif_canary',
           'tag:yaml.org,2002:binary', 'tag:yaml.org,2002:set',
           'tag:yaml.org,2002:omap', 'tag:yaml.org,2002:pairs']
