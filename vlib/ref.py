"""Independent reference semantics, written from the documentation and the
property texts (DESIGN 2.3) -- deliberately naive, no shared code with yatiml.
"""
import abc
import collections
import datetime
import enum
import inspect
import pathlib
import typing
from collections import OrderedDict, UserString
from typing import Any

import yatiml
from vlib.common import (T_BOOL, T_FLOAT, T_INT, T_MAP, T_NULL, T_SEQ, T_STR,
                         T_TS)

# ------------------------------------------------------------------ types


def origin(t):
    return getattr(t, '__origin__', None)


def is_union(t):
    return origin(t) is typing.Union


def is_seq(t):
    return origin(t) in (list, collections.abc.Sequence,
                         collections.abc.MutableSequence)


def is_map(t):
    return origin(t) in (dict, collections.abc.Mapping,
                         collections.abc.MutableMapping)


def args(t):
    return list(t.__args__)


def is_stringlike(t):
    return inspect.isclass(t) and issubclass(t, (str, UserString,
                                                 yatiml.String))


def is_abstract(c):
    return inspect.isabstract(c) or abc.ABC in c.__bases__


def params(cls):
    """[(name, annotation, required, default)] of the constructor, without
    self and _yatiml_extra."""
    sig = inspect.signature(cls.__init__)
    out = []
    for i, (n, p) in enumerate(sig.parameters.items()):
        if i == 0 or n == '_yatiml_extra':
            continue
        ann = Any if p.annotation is inspect.Parameter.empty else p.annotation
        out.append((n, ann, p.default is inspect.Parameter.empty, p.default))
    return out


def takes_extra(cls):
    return '_yatiml_extra' in inspect.signature(cls.__init__).parameters


PLAIN_SCALARS = (bool, int, float, str, bytes, type(None), datetime.date,
                 datetime.datetime)


def is_plain_data(v) -> bool:
    """dicts, lists and built-in scalars only, all the way down (C04)."""
    if type(v) in PLAIN_SCALARS:
        return True
    if type(v) is list:
        return all(is_plain_data(x) for x in v)
    if type(v) in (dict, OrderedDict):
        return all(is_plain_data(k) and is_plain_data(x)
                   for k, x in v.items())
    return False


def conforms(v, t, registered) -> bool:
    """Does Python value v conform to declared type t (C01)?  `registered` is
    the list of classes registered with the load function."""
    if t is Any:
        return True
    if t is None or t is type(None):
        return v is None
    if t is bool or t is yatiml.bool_union_fix:
        return type(v) is bool
    if t is int:
        return type(v) is int
    if t is float:
        return type(v) is float
    if t is str:
        return type(v) is str
    if t is datetime.date:
        return isinstance(v, datetime.date)
    if t is pathlib.Path:
        return isinstance(v, pathlib.Path)
    if is_union(t):
        return any(conforms(v, a, registered) for a in args(t))
    if is_seq(t):
        return type(v) is list and all(
            conforms(x, args(t)[0], registered) for x in v)
    if is_map(t):
        kt, vt = args(t)
        return isinstance(v, dict) and all(
            conforms(k, kt, registered) and conforms(x, vt, registered)
            for k, x in v.items())
    if inspect.isclass(t):
        if not isinstance(v, t):
            return False
        if type(v) not in registered:
            return False
        if is_abstract(type(v)):
            return False
        return True
    return False


def trace_conforms(trace, registered):
    """Every recorded __init__ call got, for every parameter, an argument
    conforming to that parameter's annotation.  Returns None or a
    description of the first offending call."""
    for ev in trace:
        if ev[0] != 'init':
            continue
        _, cls, kwargs = ev
        if cls not in registered:
            return 'constructor of unregistered class %s ran' % cls.__name__
        anns = {n: a for n, a, _, _ in params(cls)}
        for name, val in kwargs.items():
            if name == '_yatiml_extra':
                if val is not None and not (
                        type(val) is OrderedDict and is_plain_data(val)):
                    return '%s._yatiml_extra is %r' % (cls.__name__, val)
                continue
            if name not in anns:
                return '%s got unknown argument %s' % (cls.__name__, name)
            if not conforms(val, anns[name], registered):
                return '%s.__init__(%s=%r) does not conform to %s' % (
                    cls.__name__, name, val, anns[name])
    return None
