"""Independent reference semantics, written from the documentation and the
property texts (DESIGN 2.3) -- deliberately naive, no shared code with yatiml.
"""
import abc
import collections
import datetime
import enum
import inspect
import pathlib
import typing
from collections import OrderedDict, UserString
from typing import Any

import yatiml
from vlib.common import (T_BOOL, T_FLOAT, T_INT, T_MAP, T_NULL, T_SEQ, T_STR,
                         T_TS)

# ------------------------------------------------------------------ types


def origin(t):
    return getattr(t, '__origin__', None)


def is_union(t):
    return origin(t) is typing.Union


def is_seq(t):
    return origin(t) in (list, collections.abc.Sequence,
                         collections.abc.MutableSequence)


def is_map(t):
    return origin(t) in (dict, collections.abc.Mapping,
                         collections.abc.MutableMapping)


def args(t):
    return list(t.__args__)


def is_stringlike(t):
    return inspect.isclass(t) and issubclass(t, (str, UserString,
                                                 yatiml.String))


def is_abstract(c):
    return inspect.isabstract(c) or abc.ABC in c.__bases__


def params(cls):
    """[(name, annotation, required, default)] of the constructor, without
    self and _yatiml_extra."""
    sig = inspect.signature(cls.__init__)
    out = []
    for i, (n, p) in enumerate(sig.parameters.items()):
        if i == 0 or n == '_yatiml_extra':
            continue
        ann = Any if p.annotation is inspect.Parameter.empty else p.annotation
        out.append((n, ann, p.default is inspect.Parameter.empty, p.default))
    return out


def takes_extra(cls):
    return '_yatiml_extra' in inspect.signature(cls.__init__).parameters


PLAIN_SCALARS = (bool, int, float, str, bytes, type(None), datetime.date,
                 datetime.datetime)


def is_plain_data(v) -> bool:
    """dicts, lists and built-in scalars only, all the way down (C04)."""
    if type(v) in PLAIN_SCALARS:
        return True
    if type(v) is list:
        return all(is_plain_data(x) for x in v)
    if type(v) in (dict, OrderedDict):
        return all(is_plain_data(k) and is_plain_data(x)
                   for k, x in v.items())
    return False


def conforms(v, t, registered) -> bool:
    """Does Python value v conform to declared type t (C01)?  `registered` is
    the list of classes registered with the load function."""
    if t is Any:
        return True
    if t is None or t is type(None):
        return v is None
    if t is bool or t is yatiml.bool_union_fix:
        return type(v) is bool
    if t is int:
        return type(v) is int
    if t is float:
        return type(v) is float
    if t is str:
        return type(v) is str
    if t is datetime.date:
        return isinstance(v, datetime.date)
    if t is pathlib.Path:
        return isinstance(v, pathlib.Path)
    if is_union(t):
        return any(conforms(v, a, registered) for a in args(t))
    if is_seq(t):
        return type(v) is list and all(
            conforms(x, args(t)[0], registered) for x in v)
    if is_map(t):
        kt, vt = args(t)
        return isinstance(v, dict) and all(
            conforms(k, kt, registered) and conforms(x, vt, registered)
            for k, x in v.items())
    if inspect.isclass(t):
        if not isinstance(v, t):
            return False
        if type(v) not in registered:
            return False
        if is_abstract(type(v)):
            return False
        return True
    return False


def trace_conforms(trace, registered):
    """Every recorded __init__ call got, for every parameter, an argument
    conforming to that parameter's annotation.  Returns None or a
    description of the first offending call."""
    for ev in trace:
        if ev[0] != 'init':
            continue
        _, cls, kwargs = ev
        if cls not in registered:
            return 'constructor of unregistered class %s ran' % cls.__name__
        anns = {n: a for n, a, _, _ in params(cls)}
        for name, val in kwargs.items():
            if name == '_yatiml_extra':
                if val is not None and not (
                        type(val) is OrderedDict and is_plain_data(val)):
                    return '%s._yatiml_extra is %r' % (cls.__name__, val)
                continue
            if name not in anns:
                return '%s got unknown argument %s' % (cls.__name__, name)
            if not conforms(val, anns[name], registered):
                return '%s.__init__(%s=%r) does not conform to %s' % (
                    cls.__name__, name, val, anns[name])
    return None


# ===========================================================================
# Reference load semantics (C02, C03): a deliberately naive interpreter of
# the documented pipeline on the ORIGINAL node tree (it never shares code with
# yatiml's recognizer/constructor; plain YAML data below Any and the parsing
# of scalar values are delegated to PyYAML's SafeConstructor, which is in the
# trusted base).

import yaml as _yaml


class Reject(Exception):
    """The documented pipeline does not admit the document."""


class NoClaim(Exception):
    """The documents/rules do not pin the outcome (accepted either way)."""


CORE_PREFIX = 'tag:yaml.org,2002:'
_SC = {str: T_STR, int: T_INT, float: T_FLOAT, bool: T_BOOL,
       type(None): T_NULL, None: T_NULL, datetime.date: T_TS}


class Ref:
    def __init__(self, registered, resolver_loader_cls):
        self.reg = list(registered)
        self.tags = {'!' + c.__name__: c for c in self.reg}
        self.loader_cls = resolver_loader_cls

    # ------------------------------------------------------------ recognise
    def recognize(self, node, t):
        """Set of types node is recognised as, given expected type t."""
        sc = isinstance(node, _yaml.ScalarNode)
        if t is Any:
            return {Any}
        if t in _SC or t is yatiml.bool_union_fix:
            want = T_BOOL if t is yatiml.bool_union_fix else _SC[t]
            return {t} if sc and node.tag == want else set()
        if t is pathlib.Path:
            return {t} if sc and node.tag == T_STR else set()
        if is_union(t):
            out = set()
            for a in args(t):
                out |= self.recognize(node, a)
            if bool in out and yatiml.bool_union_fix in out:
                out.discard(yatiml.bool_union_fix)
            return out
        if is_seq(t):
            if not isinstance(node, _yaml.SequenceNode):
                return set()
            for it in node.value:
                r = self.recognize(it, args(t)[0])
                if not r:
                    return set()
                if len(r) > 1:
                    return {typing.List[x] for x in r}      # ambiguous
            return {t}
        if is_map(t):
            if not isinstance(node, _yaml.MappingNode):
                return set()
            kt, vt = args(t)
            for k, v in node.value:
                rk = self.recognize(k, kt)
                if not rk:
                    return set()
                if len(rk) > 1:
                    return {typing.Dict[x, vt] for x in rk}
                rv = self.recognize(v, vt)
                if not rv:
                    return set()
                if len(rv) > 1:
                    return {typing.Dict[kt, x] for x in rv}
            return {t}
        if inspect.isclass(t) and t in self.reg:
            return self.recognize_classes(node, t)
        raise Reject('type %r is not registered' % (t,))

    def children(self, c):
        return [d for d in self.reg if c in d.__bases__]

    def matches(self, node, c):
        """Does node match exactly class c (automatic recognition)?"""
        if '_yatiml_recognize' in c.__dict__:
            u = yatiml.UnknownNode(_Recognizer(self), node)
            try:
                c._yatiml_recognize(u)
                return True
            except yatiml.RecognitionError:
                return False
        sc = isinstance(node, _yaml.ScalarNode)
        if issubclass(c, enum.Enum):
            return sc and node.tag in (T_STR, T_BOOL)
        if is_stringlike(c):
            return sc and node.tag == T_STR
        if not isinstance(node, _yaml.MappingNode):
            return False
        for name, ann, required, _ in params(c):
            hit = None
            for n in (name, name.replace('_', '-')):
                vs = [v for k, v in node.value if k.value == n]
                if len(vs) > 1:
                    return False                # duplicate key
                if vs:
                    hit = vs[0]
                    break
            if hit is None:
                if required:
                    return False
                continue
            if not self.recognize(hit, ann):
                return False
        return True

    def most_derived(self, node, c):
        below = set()
        for d in self.children(c):
            below |= self.most_derived(node, d)
        if below:
            return below
        if not is_abstract(c) and self.matches(node, c):
            return {c}
        return set()

    def recognize_classes(self, node, c):
        m = self.most_derived(node, c)
        if not m:
            return set()
        tagged = self.tags.get(node.tag)
        if len(m) > 1:
            if tagged in m:
                return {tagged}
            if tagged is not None and all(issubclass(c, tagged) for c in m) \
                    and not is_abstract(tagged) and self.matches(node, tagged):
                # the same unpinned corner as below, with several candidates:
                # the tag names a registered concrete ANCESTOR of all of
                # them that itself matches
                raise NoClaim('tag names a matching ancestor')
            if not node.tag.startswith('tag:yaml.org,2002'):
                # a tag that names none of the candidates (an incompatible
                # or unknown class): this hierarchy offers nothing -- which
                # matters inside a Union whose other member the tag names
                return set()
            return m
        if not node.tag.startswith('tag:yaml.org,2002'):
            if tagged is None or tagged not in m:
                # a tag naming a registered ANCESTOR of the match that
                # itself matches: the texts do not pin this corner
                (only,) = m
                if tagged is not None and issubclass(only, tagged) and \
                        not is_abstract(tagged) and self.matches(node, tagged):
                    raise NoClaim('tag names a matching ancestor')
                return set()
        return m

    # ----------------------------------------------------------------- load
    def plain_data(self, node):
        """Plain YAML data below an Any / untyped / extra position: tags are
        ignored (non-core scalar tags re-resolved, collections seq/map)."""
        copy = self._stripped(node)
        ldr = _yaml.SafeLoader('')          # pure PyYAML construction
        try:
            return ldr.construct_document(copy)
        except _yaml.YAMLError as e:
            raise Reject('yaml: %s' % type(e).__name__)
        except (ValueError, KeyError, IndexError, AttributeError) as e:
            raise Reject('malformed scalar: %s' % type(e).__name__)
        finally:
            ldr.dispose()

    def _stripped(self, node):
        if isinstance(node, _yaml.ScalarNode):
            tag = node.tag
            if not tag.startswith(CORE_PREFIX):
                r = self.loader_cls('')
                tag = r.resolve(_yaml.ScalarNode, node.value, (True, False))
                r.dispose()
            return _yaml.ScalarNode(tag, node.value, node.start_mark,
                                    node.end_mark)
        if isinstance(node, _yaml.SequenceNode):
            return _yaml.SequenceNode(T_SEQ, [self._stripped(x)
                                              for x in node.value],
                                      node.start_mark, node.end_mark)
        return _yaml.MappingNode(T_MAP, [(self._stripped(k),
                                          self._stripped(v))
                                         for k, v in node.value],
                                 node.start_mark, node.end_mark)

    def scalar(self, node, tag):
        copy = _yaml.ScalarNode(tag, node.value, node.start_mark,
                                node.end_mark)
        return self.plain_data(copy)

    def load(self, node, t):
        types = self.recognize(node, t)
        if len(types) != 1:
            raise Reject('%d types recognised' % len(types))
        (r,) = types
        if r is Any:
            return self.plain_data(node)
        if r in _SC or r is yatiml.bool_union_fix:
            return self.scalar(node, T_BOOL if r is yatiml.bool_union_fix
                               else _SC[r])
        if r is pathlib.Path:
            return pathlib.Path(node.value)
        if is_seq(r):
            if node.tag != T_SEQ:
                raise Reject('sequence with another tag')
            return [self.load(x, args(r)[0]) for x in node.value]
        if is_map(r):
            if node.tag != T_MAP:
                raise Reject('mapping with another tag')
            out = {}
            for k, v in node.value:
                key = self.load(k, args(r)[0])
                val = self.load(v, args(r)[1])
                try:
                    out[key] = val
                except TypeError:
                    raise Reject('unhashable key')
            return out
        return self.construct(node, r)

    def savorize(self, node, c):
        for b in c.__bases__:
            if b in self.reg:
                node = self.savorize(node, b)
        if '_yatiml_savorize' in c.__dict__:
            n = yatiml.Node(node)
            try:
                c._yatiml_savorize(n)
            except Exception:   # noqa  (any exception of the hook rejects)
                raise Reject('savorize raised')
            node = n.yaml_node
        return node

    def construct(self, node, c):
        node = self.savorize(node, c)
        if issubclass(c, enum.Enum):
            if not isinstance(node, _yaml.ScalarNode) or \
                    node.value not in c.__members__:
                raise Reject('not a member name')
            return c[node.value]
        if is_stringlike(c):
            if not isinstance(node, _yaml.ScalarNode):
                raise Reject('not a scalar')
            try:
                return c(node.value)
            except Exception:        # noqa
                raise Reject('string-like constructor raised')
        if not isinstance(node, _yaml.MappingNode):
            raise Reject('not a mapping after savorizing')
        ps = params(c)
        names = [n for n, _, _, _ in ps]
        kwargs, extras = {}, OrderedDict()
        seen = []
        for k, v in node.value:
            if not isinstance(k, _yaml.ScalarNode) or k.tag != T_STR:
                raise Reject('key is not a string')
            if k.value in ('self', '_yatiml_extra'):
                raise NoClaim('a key named self / _yatiml_extra')
            if k.value in names:
                if k.value in seen:
                    raise Reject('duplicate key')
                seen.append(k.value)
        for name, ann, required, _ in ps:
            vs = [v for k, v in node.value if k.value == name]
            if not vs:
                if required:
                    raise Reject('missing attribute ' + name)
                continue
            kwargs[name] = self.load(vs[0], ann)
        for k, v in node.value:
            if k.value not in names:
                if not takes_extra(c):
                    raise Reject('unknown attribute ' + k.value)
                extras[k.value] = self.plain_data(v)
        if takes_extra(c):
            kwargs['_yatiml_extra'] = extras
        try:
            return c(**kwargs)
        except Exception:        # noqa
            raise Reject('constructor raised')


class _Recognizer(yatiml.irecognizer.IRecognizer if hasattr(
        yatiml, 'irecognizer') else object):
    """Lets custom _yatiml_recognize functions of the class model call
    require_attribute(name, type) against the reference rules."""
    def __init__(self, ref):
        self.ref = ref

    def recognize(self, node, expected_type):
        try:
            r = self.ref.recognize(node, expected_type)
        except Reject:
            r = set()
        return r, ('reference: not recognised', [])
