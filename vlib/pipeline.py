"""Shared by the full-pipeline harnesses (C01, C02, C04, C08, C13, C17, C18):
the model table (class model + document type + valid base documents) and the
solver-driven mutation of a base document.
"""
import datetime
import pathlib
from typing import Any, Dict, List, Optional, Union

import yaml

import yatiml
from vlib import docs, zoo
from vlib.common import (HarnessError, T_MAP, T_SEQ, T_STR, load_tree, note,
                         pick)
from vlib.docs import B, F, I, M, NUL, Q, S, TS

Z = zoo

# name -> (document type, registered classes, [base document specs])
MODELS = [
    ('plain', Z.Doc, [Z.Doc, Z.Sub], [
        M(a=I(1), b=S('x'), c=F(2.5), d=B(True), e=M(x=I(3))),
        M(b=S('x'), a=I(1)),
    ]),
    ('perm', Z.PermHolder, [Z.PermHolder, Z.Perm, Z.Sub], [
        M(p=M(a=I(1), b=Q(S('u')), c=M(x=I(2))), q=M(a=I(5), b=Q())),
        M(p=M(a=I(1), b=Q(S('u'), S('v')))),
    ]),
    ('sav', Z.Sav, [Z.Sav, Z.Sub], [
        M(a=I(1), aa=I(4), b=S('y'), ss=M(x=I(1))),
        M(a=I(4), scalarize=NUL()),
        M(a=I(4), addunk=NUL()),
        M(a=I(4), boom=NUL()),
        M(a=I(4), boom2=NUL()),
        M(a=I(4), boom3=NUL()),
        M(a=I(4), boom4=NUL()),
    ]),
    ('uni', Z.Uni, [Z.Uni, Z.Sub, Z.Color], [
        M(a=I(1), b=F(1.5), c=B(True), d=M(x=I(1))),
        M(a=S('s'), c=I(3), d=Q(I(1), I(2)), e=S('red')),
        M(a=I(1), e=B(True)),       # bool or the enum member "true"?
    ]),
    ('coll', Z.Coll, [Z.Coll, Z.Sub], [
        M(a=Q(I(1)), b=M(k=F(1.5)), c=Q(M(x=I(1)))),
        M(a=Q(), b=M(), d=M(k=Q(B(True))), e=Q(S('s')), f=M(k=M(x=I(2)))),
    ]),
    ('loose', Z.Loose, [Z.Loose, Z.Sub], [
        M(a=M(k=Q(I(1), S('s'))), b=Q(M(x=I(1))), zz=M(x=I(2))),
        M(a=I(1), s=M(x=I(1)), yy=S('t'), zz=Q(M(x=I(2)))),
    ]),
    ('when', Z.When, [Z.When], [
        M(d=TS('2001-12-14'), p=S('/tmp/x'), od=TS('2001-12-14 21:59:43'),
          ps=Q(S('a/b'))),
    ]),
    ('styled', Z.Styled, [Z.Styled, Z.Color, Z.Ident, Z.UStr, Z.Ver], [
        M(col=S('red'), name=S('abc'), v=S('1.2'), cols=Q(B('true')),
          by=M(k1=I(1)), bu=M(uk=I(2)), bv=M(('1.2', I(3)))),
        M(col=B('true'), name=S('n'), u=S('any thing'), cb=B('true'),
          cols=Q(S('green'))),
    ]),
    ('shapes', Z.Canvas, [Z.Canvas, Z.Shape, Z.Circle, Z.Square], [
        M(shapes=Q(M(center=Q(F(1.0)), radius=F(1.5))),
          main=M(center=Q(), width=F(2.0))),
    ]),
    ('picky', Z.Picky, [Z.Picky], [
        M(n=I(5), label=S('t')),
    ]),
    ('top_int', int, [], [I(5)]),
    ('top_list', List[int], [], [Q(I(1), I(2))]),
    ('top_dict', Dict[str, Z.Sub], [Z.Sub], [M(k=M(x=I(1)))]),
    ('top_union', Union[int, List[str], Z.Sub, None], [Z.Sub], [
        M(x=I(1)), Q(S('a')), ('s', 'tag:yaml.org,2002:null', 'null')]),
    ('top_any', Any, [], [M(k=Q(I(1), M(x=S('s'))))]),
    # top-level collections of classes that are written as strings: nothing
    # above them type-checks the elements a second time
    ('top_dict_path', Dict[str, pathlib.Path], [], [
        M(k=S('a/b'), j=S('c'))]),
    ('top_dict_enum', Dict[str, Z.Color], [Z.Color], [
        M(red=S('red'), k=B('true'))]),
    ('top_list_enum', List[Union[Z.Color, int]], [Z.Color], [
        Q(S('red'), B('true'), I(3))]),
    ('top_opt_date', Optional[datetime.date], [], [TS('2001-12-14')]),
    # Any as a member of a Union (D24)
    ('dashed', Z.Dashed, [Z.Dashed], [
        M(('max-retries', I(3)), ('log-level', S('a'))),
    ]),
    ('copying', Z.Copying, [Z.Copying, Z.Sub], [
        M(items=Q(I(1), I(2)), sub=M(x=I(3)), d=M(k=M(x=I(4)))),
    ]),
    ('versioned', Union[Z.V1, Z.V2], [Z.V1, Z.V2], [
        M(version=I(1), name=S('a')),
        M(version=I(2), title=S('t'), factor=F(2.5)),
    ]),
    ('top_opt_any', Optional[Any], [], [M(k=Q(I(1)))]),
    ('any_union', Z.AnyU, [Z.AnyU, Z.Sub], [M(a=M(k=I(1)), b=S('x'))]),
    ('typed', Z.Typed, [Z.Typed, Z.Ident], [
        M(paths=Q(S('tmp')), names=Q(S('a')), m1=M(k=S('x')),
          m2=M(k=S('v'))),
    ]),
    ('req4', Z.Outer4, [Z.Outer4, Z.Req4], [
        M(first=I(0), r=M(a=I(1), b=I(2), c=I(3), d=I(4), e=I(5)),
          last=I(9)),
    ]),
    ('firm', Z.Firm, [Z.Firm, Z.Staff, Z.Ident], [
        M(employees=M(mary=M(role=S('boss')), bob=S('clerk'))),
    ]),
    ('order', Z.Order, [Z.Order, Z.Item], [
        M(('customer-name', S('x')),
          ('items', M(i1=F(1.5), i2=M(price=F(2.5), description=S('d')))),
          ('note', S('n')), ('extra-1', Q(I(1)))),
        M(customer_name=S('x'), items=Q(M(item_id=S('i'), price=F(1.0)))),
    ]),
    ('job', Z.Job, [Z.Job], [
        M(name=S('j'), retries=Q(I(1), I(2), I(3)), tags=Q(S('a'), S('b')),
          limits=M(cpu=F(1.5), mem=F(2.5))),
    ]),
    ('extra_default', Z.ExtraHolder, [Z.ExtraHolder, Z.ExtraDef, Z.Alt], [
        M(u=M(a=I(1), b=S('x'), more=I(2)), v=M(a=I(3))),
    ]),
    # ---- C04: a registered class (Trap) that no typed position admits
    ('trap_loose', Z.Loose2, [Z.Loose2, Z.Sub, Z.Trap], [
        M(a=M(x=I(1)), b=M(x=I(2)), s=M(x=I(3)), l=Q(M(x=I(4))),
          d=M(k=M(x=I(5))), zz=M(x=I(6))),
        M(a=Q(M(k=M(x=I(1)))), zz=Q(Q(M(x=I(2))))),
        # untyped positions next to NESTED typed ones (aliases between them)
        M(a=I(0), b=I(0), t=M(k=M(x=I(1))), ts=Q(M(x=I(2))), yy=I(0)),
    ]),
    ('trap_any', Any, [Z.Trap, Z.Sub], [
        M(x=I(1)), Q(M(x=I(1)), M(k=M(x=I(2)))),
    ]),
    ('trap_dict', Dict[str, Any], [Z.Trap], [M(k=M(x=I(1)), j=Q(M(x=I(2))))]),
    ('trap_typed', Z.Holder, [Z.Holder, Z.Sub, Z.Trap], [
        M(s=M(x=I(1)), ss=Q(M(x=I(2))), u=M(x=I(3))),
    ]),
    # a savorize hook that renames keys: two spellings of one attribute
    ('trap_sav', Z.TrapSav, [Z.TrapSav, Z.Sub, Z.Trap], [
        M(a=M(x=I(1)), b_c=M(x=I(2)), n=I(1)),
    ]),
    # ---- C18: nested collections of values whose processing is not
    # idempotent (aliases inside aliased collections, D25)
    ('nest_path', List[List[pathlib.Path]], [], [
        Q(Q(S('a'), S('b')), Q(S('c')))]),
    ('nest_enum', Dict[str, List[Z.Color]], [Z.Color], [
        M(k=Q(S('red'), B('true')), j=Q(S('green')))]),
    ('nest_sav', List[List[Z.Sav]], [Z.Sav, Z.Sub], [
        Q(Q(M(a=I(1)), M(aa=I(2), b=S('y'))))]),
    # ---- underscore parameters without a savorize hook (a dashed spelling
    # of the key is in the key palette), auto-recognised and permissive
    ('under', Z.Under, [Z.Under], [M(a=I(1), b_c=I(2), l_s=Q(I(3)))]),
    ('under_perm', Z.UnderPerm, [Z.UnderPerm], [M(a=I(1), b_c=I(2))]),
    # both spellings in the base document, the dashed one (an extra
    # attribute) first and of another type
    ('under_x', Z.UnderX, [Z.UnderX], [
        M(('b-c', S('x')), ('a', I(1)), ('b_c', I(2)), ('more', S('m')))]),
    # ---- a class that is abstract because it lists ABC (not first)
    ('figs', Z.Draw, [Z.Draw, Z.Fig, Z.Poly, Z.Tri], [
        M(figs=Q(M(name=S('f')), M(name=S('t'), sides=I(3), kind=S('k'))))]),
    # ---- C17: earlier Union attributes whose unused alternative fails
    ('labels', Z.Labels, [Z.Labels], [
        M(label=S('txt'), tag2=S('u'), count=I(3), size=I(4), ratio=F(2.5))]),
    # ---- C17: dropping one key makes a value match two sibling classes
    ('ambig', Z.AmbHolder, [Z.AmbHolder, Z.AmbB, Z.AmbS1, Z.AmbS2], [
        M(b=M(a=I(1), x=I(2)), n=I(3), bs=Q(M(a=I(4), y=I(5))))]),
]
CORE = {m[0] for m in MODELS if not m[0].startswith('trap_')
        and m[0] not in ('order', 'typed', 'req4', 'firm', 'extra_default',
                         'job', 'nest_path', 'nest_enum', 'nest_sav', 'ambig', 'labels')}
GROUP_C02 = (CORE - {'perm', 'versioned', 'under_perm'}) | {'order', 'firm', 'extra_default',
                                            'job'}
GROUP_C08 = CORE | {'order', 'job', 'extra_default'}
GROUP_C04 = {'trap_loose', 'trap_any', 'trap_dict', 'trap_typed', 'loose',
             'top_any', 'trap_sav'}
MODEL_IDX = {m[0]: i for i, m in enumerate(MODELS)}

_LOADERS = {}


def loader_for(mi: int):
    if mi not in _LOADERS:
        name, doc_type, classes, _ = MODELS[mi]
        others = [c for c in classes if c is not doc_type]
        _LOADERS[mi] = yatiml.load_function(doc_type, *others)
    return _LOADERS[mi]


def base_docs():
    """[(model index, base doc index, number of nodes)] for slicing."""
    out = []
    for mi, (_, _, _, specs) in enumerate(MODELS):
        for bi, spec in enumerate(specs):
            out.append((mi, bi, len(docs.build(spec).nodes)))
    return out


BASES = base_docs()

# '<<' is a real merge key (tag merge); '<<str' is the quoted string "<<"
KEYS = ['zz', '<<', '_yatiml_extra', 'a', 'b-c', 'self', 'b', 'x', 'p', 's',
        'center', 'radius', 'n', '{0} {x} %s', '<<str']
VALS = ['1', 'abc', 'true', '', '{0} {x} %s', '1.5', '2001-12-14', '-', 'red',
        '0x1F', '1_000', '.inf', '13', 'boom', 'null', '14', '15', 'describe',
        '__doc__', 'name']

PY = 'tag:yaml.org,2002:python/'
# (tag, value) pairs for replacement scalars: each core tag with a well-formed
# and a malformed value, tags that PyYAML (not yatiml) could act on
SCALAR_PAIRS = [
    (T_STR, 'abc'), ('tag:yaml.org,2002:int', '1'),
    ('tag:yaml.org,2002:bool', 'true'), ('tag:yaml.org,2002:null', ''),
    ('tag:yaml.org,2002:float', '1.5'),
    ('tag:yaml.org,2002:timestamp', '2001-12-14'),
    ('tag:yaml.org,2002:int', 'abc'), ('tag:yaml.org,2002:int', '-'),
    ('tag:yaml.org,2002:float', 'x'), ('tag:yaml.org,2002:bool', 'maybe'),
    ('tag:yaml.org,2002:timestamp', 'x'),
    ('tag:yaml.org,2002:timestamp', '2001-13-45'),
    ('tag:yaml.org,2002:null', 'x'), (T_MAP, 'x'), (T_SEQ, 'x'),
    ('tag:yaml.org,2002:binary', 'aGk='), ('tag:yaml.org,2002:binary', '!'),
    ('tag:yaml.org,2002:set', 'x'), ('tag:yaml.org,2002:zz', 'x'),
    (PY + 'object/apply:verif_canary.fire', 'x'),
    (PY + 'name:verif_canary.fire', ''),
    (PY + 'module:verif_canary', ''),
    (T_STR, 'true'), (T_STR, '1'), (T_STR, 'red'), (T_STR, '1.2'),
    ('tag:yaml.org,2002:int', '13'), ('tag:yaml.org,2002:int', '-4'),
    (T_STR, 'boom'), ('tag:yaml.org,2002:bool', 'yes'),
    ('tag:yaml.org,2002:float', '.inf'), ('tag:yaml.org,2002:int', '0x1F'),
    ('tag:yaml.org,2002:value', '='), ('tag:yaml.org,2002:merge', '<<'),
    ('tag:yaml.org,2002:int', '14'), ('tag:yaml.org,2002:int', '15'),
    (T_STR, '{0} {x} %s'),
]
COLL_TAGS = [T_SEQ, T_MAP, '!Trap', '!Sub', T_STR, 'tag:yaml.org,2002:set',
             'tag:yaml.org,2002:omap', 'tag:yaml.org,2002:pairs',
             PY + 'object:verif_canary.Boom',
             PY + 'object/new:verif_canary.Boom', 'tag:yaml.org,2002:int']
RETAGS = docs.CORE_TAGS + [
    '!Trap', '!Sub', PY + 'object/apply:verif_canary.fire',
    'tag:yaml.org,2002:set'] + COLL_TAGS[6:] + [
    PY + 'name:verif_canary.fire', 'tag:yaml.org,2002:binary',
    'tag:yaml.org,2002:zz']
NPAIR = len(SCALAR_PAIRS)
NCOLL = len(COLL_TAGS)
# rsel layout: [0, NPAIR) scalar pairs | 4 collection kinds x COLL_TAGS |
#              6 variants with the FREE (non-core) tag
NRSEL = NPAIR + 4 * NCOLL + 6 + 1
# the last one is a "merge payload": a mapping that offers a bool for the
# optional int parameter f (isinstance(True, int) holds in Python)
PAYLOAD_KEYS = ['f']      # an optional int parameter of Doc, Perm, Picky
QUICK_RSEL = (list(range(0, 8)) + [9, 11, 15, 19, NPAIR - 1] +
              [NPAIR + 0 * NCOLL + t for t in (0, 1)] +     # [x] as seq/map
              [NPAIR + 1 * NCOLL + t for t in (0, 1, 2, 3)] +   # {x: 1}
              [NPAIR + 2 * NCOLL, NPAIR + 3 * NCOLL + 1,
               NPAIR + 1 * NCOLL + 8] +
              [NPAIR + 4 * NCOLL + k for k in (0, 2, 3, 6)])


def replacement(rsel: int, tag: str, lc):
    """Replacement node number rsel; `tag` is the free non-core tag."""
    if rsel < NPAIR:
        t, v = pick(SCALAR_PAIRS, rsel)
        return docs.replacement(0, t, 0, [v], lc)
    r = rsel - NPAIR
    if r < 4 * NCOLL:
        for kind in range(4):
            for ti in range(NCOLL):
                if r == kind * NCOLL + ti:
                    return docs.replacement(kind + 1, COLL_TAGS[ti], 0, [''],
                                            lc)
    r -= 4 * NCOLL
    if r < 2:
        return docs.replacement(0, tag, r, ['abc', '1'], lc)
    if r < 6:
        return docs.replacement(r - 1, tag, 0, [''], lc)
    m = lc.next()
    return yaml.MappingNode(T_MAP, [
        (yaml.ScalarNode(T_STR, k, m, m),
         yaml.ScalarNode('tag:yaml.org,2002:bool', 'true', m, m))
        for k in PAYLOAD_KEYS], m, m)


MUT_REPLACE, MUT_RETAG, MUT_DROP, MUT_DUP, MUT_ADD, MUT_SETVAL, MUT_NONE, \
    MUT_ALIAS = range(8)
# slices: (base document, mutation group)
GROUPS = [(MUT_REPLACE,), (MUT_ADD,),
          (MUT_RETAG, MUT_DROP, MUT_DUP, MUT_SETVAL, MUT_NONE),
          (MUT_ALIAS,)]
NG = len(GROUPS)


NSUB = 3
BIG = 14         # documents with more nodes: every group is split by site


def slice_of(s: int):
    """slice number -> (index into BASES, tuple of mutation kinds, site
    residue class mod NSUB or None).  The REPLACE, ADD and ALIAS groups are
    split by site."""
    sub = s % NSUB
    g = (s // NSUB) % NG
    si = s // (NG * NSUB)
    split = g in (0, 1, 3) or BASES[si][2] > BIG
    return si, GROUPS[g], (sub if split else None)


def _slices(pred, groups=(0, 1, 2)):
    out = []
    for i, (mi, bi, n) in enumerate(BASES):
        if not pred(mi, bi, n):
            continue
        for g in groups:
            subs = range(min(NSUB, n)) if g in (0, 1, 3) or n > BIG else [0]
            out += [(i * NG + g) * NSUB + sub for sub in subs]
    return out


G4 = (0, 1, 2, 3)      # with the ALIAS group (C01, C02, C04, C08)
ALL_SLICES = _slices(lambda mi, bi, n: MODELS[mi][0] in CORE)
C17_EXTRA_SLICES = _slices(lambda mi, bi, n: MODELS[mi][0] == 'ambig')
QUICK_SLICES = _slices(lambda mi, bi, n: bi == 0 and MODELS[mi][0] in CORE)
ALL_SLICES_A = _slices(lambda mi, bi, n: MODELS[mi][0] in CORE, G4)
QUICK_SLICES_A = _slices(lambda mi, bi, n: bi == 0 and MODELS[mi][0] in CORE,
                         G4)
C08_SLICES = _slices(lambda mi, bi, n: MODELS[mi][0] in GROUP_C08, G4)
C08_QUICK_SLICES = _slices(
    lambda mi, bi, n: MODELS[mi][0] in GROUP_C08 and (
        bi == 0 or MODELS[mi][0] == 'versioned'), G4)
C02_SLICES = _slices(lambda mi, bi, n: MODELS[mi][0] in GROUP_C02, G4)
C02_QUICK_SLICES = _slices(
    lambda mi, bi, n: MODELS[mi][0] in GROUP_C02 and bi == 0, G4)
C04_SLICES = _slices(lambda mi, bi, n: MODELS[mi][0] in GROUP_C04, G4)
C04_QUICK_SLICES = _slices(
    lambda mi, bi, n: MODELS[mi][0] in GROUP_C04 and (
        bi == 0 or MODELS[mi][0].startswith('trap_')), G4)


def slice_for(model: str, bi: int, group: int, sub: int = 0) -> int:
    for i, (mi, b, n) in enumerate(BASES):
        if MODELS[mi][0] == model and b == bi:
            return (i * NG + group) * NSUB + sub
    raise HarnessError(model)


class Limits:
    """How much of the palettes a tier explores.  Selectors beyond the limit
    take one early-exit path each kind (a single comparison), so unused
    selector values cost nothing."""
    def __init__(self, quick: bool):
        self.rsel = QUICK_RSEL if quick else list(range(NRSEL))
        self.nvals = 5 if quick else len(VALS)
        self.nkeys = 5 if quick else len(KEYS)
        self.nretags = 12 if quick else len(RETAGS)


FULL = Limits(False)


def mutated(mi: int, bi: int, site: int, mut: int, rsel: int, tag: str,
            vsel: int, ksel: int, lim=None, built=None):
    """Build base document bi of model mi and apply one mutation.  Returns
    the Built tree or None when the mutation does not apply at that site
    (the caller treats that as 'precondition not met').

    rsel selects the replacement/added node (REPLACE, ADD) or, for RETAG, the
    new tag (0 = the free tag, k = RETAGS[k-1]); vsel the value for SETVAL;
    ksel the key for ADD."""
    spec = MODELS[mi][3][bi]
    b = built if built is not None else docs.build(spec)
    if not 0 <= site < len(b.nodes):
        return None
    if mut == MUT_NONE:
        return b if site == 0 else None
    site = pick(list(range(len(b.nodes))), site)    # concrete index per path
    node = b.nodes[site]
    lim = lim or FULL
    if mut == MUT_REPLACE:
        if rsel >= len(lim.rsel):
            return None
        docs.place(b, site, replacement(pick(lim.rsel, rsel), tag, b.lc))
    elif mut == MUT_RETAG:
        if rsel > lim.nretags:
            return None
        node.tag = tag if rsel == 0 else pick(RETAGS, rsel - 1)
    elif mut == MUT_DROP:
        if not docs.drop_entry(b, site):
            return None
    elif mut == MUT_DUP:
        if not docs.dup_entry(b, site):
            return None
    elif mut == MUT_ADD:
        if not isinstance(node, yaml.MappingNode):
            return None
        if rsel >= len(lim.rsel) or ksel >= lim.nkeys:
            return None
        m = b.lc.next()
        kname = pick(KEYS, ksel)
        if kname == '<<':
            k = yaml.ScalarNode('tag:yaml.org,2002:merge', '<<', m, m)
        elif kname == '<<str':
            k = yaml.ScalarNode(T_STR, '<<', m, m)
        else:
            k = yaml.ScalarNode(T_STR, kname, m, m)
        v = replacement(pick(lim.rsel, rsel), tag, b.lc)
        node.value = list(node.value) + [(k, v)]
    elif mut == MUT_SETVAL:
        if not isinstance(node, yaml.ScalarNode) or vsel >= lim.nvals:
            return None
        node.value = pick(VALS, vsel)
    elif mut == MUT_ALIAS:
        # the node at `site` becomes an ALIAS of node number rsel: the very
        # same node object, which is what PyYAML's composer produces
        if rsel >= len(b.nodes) or rsel == site:
            return None
        target = b.nodes[pick(list(range(len(b.nodes))), rsel)]
        if is_descendant(node, target):
            return None         # an alias of an ancestor: a cycle (C08, C18)
        docs.place(b, site, target)
    else:
        return None
    docs.layout(b.root)
    return b


def run_load(mi: int, tree):
    """(outcome, value-or-exception) of the public load function; the zoo
    trace is reset first."""
    zoo.reset()
    try:
        v = load_tree(loader_for(mi), tree)
    except Exception as e:   # noqa   (CrossHair's own signals are
        return 'raise', e    #         BaseExceptions and pass through)
    return 'ok', v


def run_load_all(mi: int, tree):
    """As run_load, through yaml.load_all and the Loader class."""
    from vlib.common import load_tree_all
    zoo.reset()
    try:
        v = load_tree_all(loader_for(mi), tree)
    except Exception as e:   # noqa
        return 'raise', e
    return 'ok', v


def explore(sl: int, site: int, mut: int, rsel: int, tag: str, vsel: int,
            ksel: int, lim, check, before=None):
    """One solver-chosen single-point mutant of the base document selected by
    slice `sl`, loaded through the public API; `check(mi, outcome, value,
    built)` is the property's assertion.  Returns None when the selectors do
    not denote a mutant in this slice, else (outcome, bool)."""
    si, muts, sub = slice_of(sl)
    mi, bi, n = BASES[si]
    if site >= n or mut not in muts:
        return None
    if sub is not None and site % NSUB != sub:
        return None
    if (MODELS[mi][0] == 'picky' or n <= 7) and mut != MUT_ADD:
        lim = FULL          # interesting values are late in the palettes;
        #                     small documents get the full palettes anyway
    b = mutated(mi, bi, site, mut, rsel, tag, vsel, ksel, lim)
    if b is None:
        return None
    if before is not None:
        # evaluated on the document BEFORE the load rewrites it in place
        b.pre = before(mi, b)
    outcome, val = run_load(mi, b.root)
    note(model=MODELS[mi][0], base=bi, site=site, mutation=mut)
    return outcome, check(mi, outcome, val, b)


MUTANT_PRE = """
    pre: 0 <= site < 28 and 0 <= mut < 8 and 0 <= rsel < 90
    pre: 1 <= len(tag) <= 40 and tag != '!'
    pre: not tag.startswith('tag:yaml.org,2002:')
    pre: 0 <= vsel < 20 and 0 <= ksel < 15
"""
MUTANT_BOUND = (
    'one slice per (model, base document, mutation group; REPLACE, ADD and '
    'ALIAS also by site mod 3): every single-point mutation (8 kinds) at '
    'every node, one of them ALIAS: the node becomes an alias of any other '
    'node that is not one of its ancestors (the same node object, keys '
    'included); '
    'replacement/added nodes: 37 (tag, value) scalar pairs, 4 collection '
    'shapes x 11 tags (incl. registered class names), 6 shapes with a FREE non-core tag, a merge payload mapping (quick: 24 of these '
    '80); retag with the free tag or 21 (quick 10) palette tags; 20 (quick '
    '5; all for documents of <= 7 nodes) palette values; 15 (quick 5) palette keys incl. a real merge key; quick tier: first base '
    'document of each model')
PIPELINE_ENCODED = [
    'yatiml.loader.LoadFunction.__call__', 'Loader.__init__',
    'Loader.get_single_node', 'Loader._Loader__process_node',
    'Loader._Loader__savorize', 'Loader._Loader__type_to_tag',
    'Loader._Loader__patch_floats/__patch_bools',
    'yatiml.recognizer.Recognizer.recognize and all _Recognizer__recognize_*',
    'yatiml.constructors.Constructor.__call__, _Constructor__type_matches, '
    '__check_no_missing_attributes, __type_check_attributes, '
    '__strip_extra_attributes, __split_off_extra_attributes',
    'EnumConstructor/UserStringConstructor/PathConstructor.__call__',
    'yatiml.introspection.class_subobjects', 'yatiml.util.strip_tags, '
    'is_generic_*, generic_type_args, type_to_desc, diagnose_*',
    'yatiml.irecognizer.format_rec_error',
    'yatiml.helpers.Node (as used by the loader and by savorize hooks)',
    'yaml.constructor.BaseConstructor.construct_document/construct_object/'
    'construct_mapping/construct_sequence/flatten_mapping, '
    'SafeConstructor.construct_yaml_*', 'yaml.resolver.BaseResolver.resolve']
PIPELINE_ASSUMPTIONS = [
    'S1 node formatting, S2 close-match hints, S3 composer: PyYAML\'s text '
    'front end (Reader/Scanner/Parser/Composer) returns some node tree or '
    'None; it is re-entered concretely when a counterexample is replayed; '
    'S8 memoised signature introspection',
    'class models: the 16 models of vlib/pipeline.py MODELS (plain typed '
    'class, permissive _yatiml_recognize, node-rewriting _yatiml_savorize, '
    'Union/Optional/bool_union_fix, List/Dict and abstract variants, '
    'Any/untyped/_yatiml_extra, date/Path, enums and string-likes, abstract '
    'hierarchy, raising constructor, six top-level document types)',
    'documents: every single-point mutation of the valid base documents '
    '(replace a node by a scalar/sequence/mapping, retag, drop, duplicate, '
    'add an entry with a palette key, set a palette value), plus the empty '
    'stream; two simultaneous mutations are outside the bound',
    'the free tag is an arbitrary string of length 1..40 other than "!" that '
    'does not start with tag:yaml.org,2002: (tags with that prefix come from '
    'a palette of 21, because PyYAML looks them up in a hash table, which '
    'would realise a free string); every such tag can be written in YAML '
    'text, if need be as a verbatim tag !<...>; replay checks that',
    'scalar values and keys come from palettes (PyYAML parses/hashes them)',
]


# ---------------------------------------------------------------------------
# helpers for the oracle-free pair properties (C13, C18)

def clone(node, lc=None):
    """A structurally equal tree made of fresh node objects (what writing an
    alias out as a copy of the anchored node composes to)."""
    if isinstance(node, yaml.ScalarNode):
        return yaml.ScalarNode(node.tag, node.value, node.start_mark,
                               node.end_mark, style=node.style)
    if isinstance(node, yaml.SequenceNode):
        return yaml.SequenceNode(node.tag, [clone(x) for x in node.value],
                                 node.start_mark, node.end_mark,
                                 flow_style=node.flow_style)
    return yaml.MappingNode(node.tag, [(clone(k), clone(v))
                                       for k, v in node.value],
                            node.start_mark, node.end_mark,
                            flow_style=node.flow_style)


def is_descendant(node, root) -> bool:
    """node occurs in the tree headed by root (root itself included)."""
    if node is root:
        return True
    if isinstance(root, yaml.SequenceNode):
        return any(is_descendant(node, x) for x in root.value)
    if isinstance(root, yaml.MappingNode):
        return any(is_descendant(node, k) or is_descendant(node, v)
                   for k, v in root.value)
    return False


def outcome_sig(outcome, val):
    """What the pair properties compare: failure, or the structural view of
    the loaded value."""
    from vlib.common import plain
    if outcome == 'raise':
        return ('fails',)
    return ('value', plain(val))


def run_load_with(loader, tree):
    zoo.reset()
    try:
        v = load_tree(loader, tree)
    except Exception as e:   # noqa
        return 'raise', e
    return 'ok', v


# ---------------------------------------------------------------------------
# two simultaneous mutations (thorough tier): a first, simple mutation (drop
# the entry / set a value / retag with a palette tag) at site1, then any
# mutation of the quick palettes at site2

FIRST_MUTS = 6      # 0 drop, 1..3 set value VALS[0..2], 4 retag str, 5 retag int
DOUBLE_MODELS = ['plain', 'sav', 'loose', 'trap_loose']


def double_slices():
    """slice = index into BASES * 32 + site1 (one slice per first site)."""
    out = []
    for k, (mi, bi, n) in enumerate(BASES):
        if MODELS[mi][0] in DOUBLE_MODELS and bi == 0:
            out += [k * 32 + s for s in range(1, min(n, 32))]
    return out


def explore2(sl: int, m1: int, site: int, mut: int, rsel: int, tag: str,
             vsel: int, ksel: int, check, before=None):
    k, site1 = sl // 32, sl % 32
    mi, bi, n = BASES[k]
    if site >= n or site == site1 or mut == MUT_NONE:
        return None
    lim = Limits(True)
    b = docs.build(MODELS[mi][3][bi])
    n1 = b.nodes[site1]
    if m1 == 0:
        if not docs.drop_entry(b, site1):
            return None
    elif m1 <= 3:
        if not isinstance(n1, yaml.ScalarNode):
            return None
        n1.value = pick(VALS, m1 - 1)
    elif m1 == 4:
        n1.tag = T_STR
    else:
        n1.tag = 'tag:yaml.org,2002:int'
    b2 = mutated(mi, bi, site, mut, rsel, tag, vsel, ksel, lim, built=b)
    if b2 is None:
        return None
    if before is not None:
        b2.pre = before(mi, b2)
    outcome, val = run_load(mi, b2.root)
    note(model=MODELS[mi][0], base=bi, first_site=site1, first_mutation=m1,
         site=site, mutation=mut)
    return outcome, check(mi, outcome, val, b2)
