"""Create /verif/.venv: an overlay on /venv (the repository's interpreter and
its dependencies) plus crosshair-tool and z3-solver from the offline wheelhouse.

Idempotent, offline.  Called by MANIFEST.setup_cmd and, defensively, by every
check (a fresh checkout of /verif has no .venv).
"""
import fcntl
import os
import subprocess
import sys

VERIF = os.path.dirname(os.path.dirname(os.path.abspath(__file__)))
VENV = os.path.join(VERIF, '.venv')
PY = os.path.join(VENV, 'bin', 'python')
BASE_PY = '/venv/bin/python'
WHEELS = '/opt/veriftools/wheels'
REPO = os.environ.get('VERIF_REPO', '/repo')


def _ok() -> bool:
    if not os.path.exists(PY):
        return False
    r = subprocess.run(
        [PY, '-c', 'import crosshair, z3, yaml, jsonschema'],
        stdout=subprocess.DEVNULL, stderr=subprocess.DEVNULL,
        env=dict(os.environ, PYTHONPATH=REPO))
    return r.returncode == 0


def ensure() -> str:
    """Returns the path of the overlay interpreter, building it if needed."""
    if _ok():
        return PY
    lock = open(os.path.join(VERIF, '.venv.lock'), 'w')
    fcntl.flock(lock, fcntl.LOCK_EX)
    try:
        if _ok():
            return PY
        subprocess.run(['rm', '-rf', VENV], check=True)
        subprocess.run([BASE_PY, '-m', 'venv', VENV], check=True)
        ver = subprocess.run(
            [BASE_PY, '-c',
             'import sys;print("python%d.%d"%sys.version_info[:2])'],
            check=True, capture_output=True, text=True).stdout.strip()
        sp = os.path.join(VENV, 'lib', ver, 'site-packages')
        with open(os.path.join(sp, 'verif_overlay.pth'), 'w') as f:
            f.write("import site; site.addsitedir("
                    "'/venv/lib/%s/site-packages')\n" % ver)
        env = dict(os.environ, PIP_NO_INDEX='1',
                   PIP_DISABLE_PIP_VERSION_CHECK='1')
        subprocess.run(
            [PY, '-m', 'pip', 'install', '-q', '--no-index',
             '--find-links', WHEELS, 'crosshair-tool', 'z3-solver',
             'jsonschema'],
            check=True, env=env)
        if not _ok():
            raise RuntimeError('overlay venv is not usable')
        return PY
    finally:
        fcntl.flock(lock, fcntl.LOCK_UN)
        lock.close()


if __name__ == '__main__':
    print(ensure())
