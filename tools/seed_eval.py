#!/usr/bin/env python3
"""Verify a seeded defect and run checks against it.

  seed_eval.py <seed id> <patch.diff> <demo.py> <note.txt> <property> [check ids...]

1. in a scratch worktree of /repo (outside /repo and /verif): the demo passes
   on the clean tree; with the patch the 180 tests pass and the demo fails;
2. applies the patch to /repo, runs `check.py <id> quick` for each check id
   (default: the property), undoes the patch;
3. writes /verif/seeded/<seed id>/{patch.diff, demo.py, meta.json}.
"""
import json
import os
import shutil
import subprocess
import sys
import time

VERIF = os.path.dirname(os.path.dirname(os.path.abspath(__file__)))


def sh(cmd, **kw):
    return subprocess.run(cmd, shell=True, capture_output=True, text=True, **kw)


def main():
    sid, patch, demo, note, prop = sys.argv[1:6]
    checks = sys.argv[6:] or [prop]
    tier = os.environ.get('SEED_TIER', 'quick')
    wt = '/tmp/seedcheck_' + sid
    sh('git -C /repo worktree remove --force %s' % wt)
    r = sh('git -C /repo worktree add -q --detach %s HEAD' % wt)
    assert r.returncode == 0, r.stderr
    meta = {'seed': sid, 'property': prop, 'note': open(note).read(),
            'ran': []}
    try:
        env = dict(os.environ, PYTHONPATH=wt)
        d0 = subprocess.run(['/venv/bin/python', demo], env=env, cwd=wt,
                            capture_output=True, text=True)
        meta['demo_clean_exit'] = d0.returncode
        a = sh('git -C %s apply %s' % (wt, os.path.abspath(patch)))
        meta['applies'] = a.returncode == 0
        t = subprocess.run('/venv/bin/python -m pytest -q -p no:cacheprovider '
                           '2>&1 | tail -1', shell=True, env=env, cwd=wt,
                           capture_output=True, text=True)
        meta['tests_with_patch'] = t.stdout.strip()
        d1 = subprocess.run(['/venv/bin/python', demo], env=env, cwd=wt,
                            capture_output=True, text=True)
        meta['demo_patched_exit'] = d1.returncode
        meta['demo_patched_tail'] = (d1.stdout + d1.stderr)[-600:]
    finally:
        sh('git -C /repo worktree remove --force %s' % wt)
    meta['valid_seed'] = (meta['demo_clean_exit'] == 0 and meta['applies']
                          and '180 passed' in meta['tests_with_patch']
                          and meta['demo_patched_exit'] != 0)
    print('seed %s valid=%s (%s)' % (sid, meta['valid_seed'],
                                     meta['tests_with_patch']))
    if meta['valid_seed']:
        st = sh('git -C /repo status --porcelain -- yatiml')
        assert st.stdout.strip() == '', '/repo not clean'
        a = sh('git -C /repo apply %s' % os.path.abspath(patch))
        assert a.returncode == 0, a.stderr
        try:
            for c in checks:
                t0 = time.time()
                r = subprocess.run(['python3', 'check.py', c, tier],
                                   cwd=VERIF, capture_output=True, text=True)
                viol = [l for l in r.stdout.splitlines()
                        if l.startswith('VIOLATION')]
                summ = [l for l in r.stdout.splitlines()
                        if 'conditions confirmed' in l]
                cex = [l for l in r.stdout.splitlines()
                       if l.startswith('counterexample')][:3]
                meta['ran'].append({
                    'cmd': 'python3 check.py %s %s' % (c, tier),
                    'exit': r.returncode, 'violations': len(viol),
                    'first_violation': viol[:1], 'counterexamples': cex,
                    'summary': summ, 'wall_s': round(time.time() - t0)})
                print('  %s %s -> exit %d, %d VIOLATION lines (%ds)' % (
                    c, tier, r.returncode, len(viol), time.time() - t0))
                for l in cex:
                    print('    ' + l[:300])
                if r.returncode not in (0, 1):
                    print(r.stdout[-1500:])
        finally:
            sh('git -C /repo checkout -- .')
            shutil.rmtree(os.path.join(VERIF, 'evidence', 'replays'),
                          ignore_errors=True)
        meta['detected_by'] = [x['cmd'] for x in meta['ran']
                               if x['exit'] == 1 and x['violations']]
    out = os.path.join(VERIF, 'seeded', sid)
    os.makedirs(out, exist_ok=True)
    shutil.copy(patch, os.path.join(out, 'patch.diff'))
    shutil.copy(demo, os.path.join(out, 'demo.py'))
    json.dump(meta, open(os.path.join(out, 'meta.json'), 'w'), indent=1)


if __name__ == '__main__':
    main()
