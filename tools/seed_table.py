#!/usr/bin/env python3
"""Print the markdown table of seeded changes from seeded/*/meta.json."""
import json
import os
import re

VERIF = os.path.dirname(os.path.dirname(os.path.abspath(__file__)))
rows = []
for sid in sorted(os.listdir(os.path.join(VERIF, 'seeded'))):
    mp = os.path.join(VERIF, 'seeded', sid, 'meta.json')
    if not os.path.exists(mp):
        continue
    m = json.load(open(mp))
    note = (m.get('note') or '').strip().replace('\n', ' ')
    note = re.sub(r'\s+', ' ', note)
    first = re.split(r'(?<=[.!?])\s', note)[0][:170].replace('|', '/')
    det = ', '.join(x.split()[2] for x in m.get('detected_by', [])) or \
        '**not detected**'
    ran = ', '.join('%s=%s' % (r['cmd'].split()[2], 'VIOLATION' if r['exit'] == 1
                               else 'exit %d' % r['exit'])
                    for r in m.get('ran', []))
    rows.append('| %s | %s | %s | %s |' % (sid, first, det, ran))
print('| seed | change (first sentence of the author\'s note) | caught by | '
      'what was run (quick tier) |')
print('|---|---|---|---|')
print('\n'.join(rows))
