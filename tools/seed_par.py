#!/usr/bin/env python3
"""Verify seeded changes and run checks against them, several at a time.

Each seed gets its own scratch worktree of /repo (under /tmp, removed
afterwards) in which the patch is applied; the checks read the library from
there (VERIF_REPO) and write their evidence/work files to a scratch directory
(VERIF_OUT), so /repo itself is never touched and /verif/evidence is not
overwritten.

  seed_par.py [-j N] [--tier quick] [--all-checks] import <dir prefix> <first no> <prop>...
        e.g. import /tmp/wt3_ 4 C01 C02: /tmp/wt3_C01/seed/patch{1,2,3}.diff
        become C01-s4, C01-s5, C01-s6
  seed_par.py [-j N] [--also C10,C11] re <seed id prefix>...
        re-evaluate seeds already under /verif/seeded
"""
import concurrent.futures as cf
import json
import os
import shutil
import subprocess
import sys
import time

VERIF = os.path.dirname(os.path.dirname(os.path.abspath(__file__)))
ALL = ['C%02d' % i for i in range(1, 19)]


def sh(cmd, **kw):
    return subprocess.run(cmd, shell=True, capture_output=True, text=True,
                          **kw)


def evaluate(sid, patch, demo, note, prop, checks, tier, jobs):
    wt = '/tmp/se_' + sid
    out = '/tmp/se_out_' + sid
    sh('git -C /repo worktree remove --force %s' % wt)
    shutil.rmtree(out, ignore_errors=True)
    r = sh('git -C /repo worktree add -q --detach %s HEAD' % wt)
    assert r.returncode == 0, r.stderr
    if not os.path.exists(note):
        old = os.path.join(VERIF, 'seeded', sid, 'meta.json')
        text = json.load(open(old)).get('note', '') if os.path.exists(old) \
            else ''
        note = '/tmp/se_note_%s.txt' % sid
        open(note, 'w').write(text)
    meta = {'seed': sid, 'property': prop, 'note': open(note).read(),
            'ran': []}
    try:
        env = dict(os.environ, PYTHONPATH=wt)
        d0 = subprocess.run(['/venv/bin/python', demo], env=env, cwd=wt,
                            capture_output=True, text=True)
        meta['demo_clean_exit'] = d0.returncode
        a = sh('git -C %s apply %s' % (wt, os.path.abspath(patch)))
        meta['applies'] = a.returncode == 0
        t = subprocess.run('/venv/bin/python -m pytest -q -p no:cacheprovider '
                           '2>&1 | tail -1', shell=True, env=env, cwd=wt,
                           capture_output=True, text=True)
        meta['tests_with_patch'] = t.stdout.strip()
        d1 = subprocess.run(['/venv/bin/python', demo], env=env, cwd=wt,
                            capture_output=True, text=True)
        meta['demo_patched_exit'] = d1.returncode
        meta['demo_patched_tail'] = (d1.stdout + d1.stderr)[-600:]
        meta['valid_seed'] = (meta['demo_clean_exit'] == 0 and meta['applies']
                              and '180 passed' in meta['tests_with_patch']
                              and meta['demo_patched_exit'] != 0)
        if meta['valid_seed']:
            cenv = dict(os.environ, VERIF_REPO=wt, VERIF_OUT=out,
                        VERIF_JOBS=str(jobs))
            for c in checks:
                t0 = time.time()
                r = subprocess.run(['python3', 'check.py', c, tier],
                                   cwd=VERIF, env=cenv, capture_output=True,
                                   text=True)
                lines = r.stdout.splitlines()
                viol = [l for l in lines if l.startswith('VIOLATION')]
                meta['ran'].append({
                    'cmd': 'python3 check.py %s %s' % (c, tier),
                    'exit': r.returncode, 'violations': len(viol),
                    'counterexamples': [l for l in lines if
                                        l.startswith('counterexample')][:3],
                    'summary': [l for l in lines
                                if 'conditions confirmed' in l],
                    'wall_s': round(time.time() - t0)})
                if r.returncode not in (0, 1):
                    meta['ran'][-1]['tail'] = r.stdout[-1500:]
            meta['detected_by'] = [x['cmd'] for x in meta['ran']
                                   if x['exit'] == 1 and x['violations']]
    finally:
        sh('git -C /repo worktree remove --force %s' % wt)
        shutil.rmtree(out, ignore_errors=True)
    d = os.path.join(VERIF, 'seeded', sid)
    os.makedirs(d, exist_ok=True)
    for src, name in ((patch, 'patch.diff'), (demo, 'demo.py'),
                      (note, 'note.txt')):
        if os.path.abspath(src) != os.path.join(d, name):
            shutil.copy(src, os.path.join(d, name))
    json.dump(meta, open(os.path.join(d, 'meta.json'), 'w'), indent=1)
    return meta


def main():
    args = sys.argv[1:]
    j, tier, allc, also = 3, 'quick', False, []
    while args and args[0].startswith('-'):
        o = args.pop(0)
        if o == '-j':
            j = int(args.pop(0))
        elif o == '--tier':
            tier = args.pop(0)
        elif o == '--all-checks':
            allc = True
        elif o == '--also':
            also = args.pop(0).split(',')
    mode = args.pop(0)
    todo = []
    if mode == 'import':
        prefix, first = args.pop(0), int(args.pop(0))
        for prop in args:
            for k in (1, 2, 3):
                d = '%s%s/seed/' % (prefix, prop)
                if os.path.exists(d + 'patch%d.diff' % k):
                    todo.append(('%s-s%d' % (prop, first + k - 1),
                                 d + 'patch%d.diff' % k, d + 'demo%d.py' % k,
                                 d + 'note%d.txt' % k, prop))
    else:
        for sid in sorted(os.listdir(os.path.join(VERIF, 'seeded'))):
            d = os.path.join(VERIF, 'seeded', sid)
            if os.path.isdir(d) and (not args or
                                     any(sid.startswith(a) for a in args)):
                todo.append((sid, d + '/patch.diff', d + '/demo.py',
                             d + '/note.txt', sid.split('-')[0]))
    jobs = max(4, 16 // max(1, min(j, len(todo)))) + 2
    with cf.ThreadPoolExecutor(j) as ex:
        futs = {}
        for sid, p, dm, n, prop in todo:
            checks = ALL if allc else [prop] + [c for c in also if c != prop]
            futs[ex.submit(evaluate, sid, p, dm, n, prop, checks, tier,
                           jobs)] = sid
        for f in cf.as_completed(futs):
            m = f.result()
            print('%s valid=%s detected_by=%s' % (
                m['seed'], m.get('valid_seed'),
                [c.split()[2] for c in m.get('detected_by', [])]))
            for x in m['ran']:
                print('   %s exit=%d viol=%d %ds %s' % (
                    x['cmd'], x['exit'], x['violations'], x['wall_s'],
                    (x['counterexamples'] or [''])[0][:160]))
            sys.stdout.flush()


if __name__ == '__main__':
    main()
