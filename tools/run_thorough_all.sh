#!/bin/bash
# runs every thorough command once, sequentially; logs under work/thorough_logs
cd /verif
mkdir -p work/thorough_logs
for p in "$@"; do
  /usr/bin/time -f "$p thorough wall %es" python3 check.py $p thorough > work/thorough_logs/$p.log 2>&1
  tail -1 work/thorough_logs/$p.log
  grep "conditions confirmed" work/thorough_logs/$p.log
done
