#!/bin/bash
# runs every quick command once, sequentially, in /verif against /repo
cd /verif
for p in C01 C02 C03 C04 C05 C06 C07 C08 C09 C10 C11 C12 C13 C14 C15 C16 C17 C18; do
  s=$(date +%s)
  python3 check.py $p quick > work/quick_$p.log 2>&1
  rc=$?
  echo "$p exit=$rc wall=$(( $(date +%s) - s ))s $(grep 'conditions confirmed' work/quick_$p.log | sed 's/.*quick: //')"
done
