#!/usr/bin/env python3
"""Regenerate MANIFEST.json from the table below (kept valid at all times)."""
import json
import os

VERIF = os.path.dirname(os.path.dirname(os.path.abspath(__file__)))

E1_NOTE = ('Trusted base: CPython, CrossHair 0.0.110 and z3; the stubs and '
           'bounds listed in the evidence file (assumptions, '
           'coverage.conditions[].bound) are part of the claim; a condition '
           'that is not "Confirmed over all paths" is reported as '
           'inconclusive, never as held.')
E1_TECH = ('bounded symbolic execution of the real yatiml/PyYAML code with '
           'CrossHair+z3 (solver verdict per path, exhaustive within stated '
           'bounds), counterexamples replayed on the unstubbed public API')

CHECKS = {
    'C11': dict(
        text='Bounded model checking over operation histories: all histories '
             'of 2 (thorough 3) operations out of 25 (create load/dump/JSON '
             'functions over a class set, a same-named other set or a set whose '
             'derived classes share a base class with a same-named class of '
             'another function, call '
             'long-lived functions on valid and invalid input, a JSON dump '
             'that aborts half way); after every step a structural snapshot '
             'of all class-level registries of PyYAML, yatiml, the long-lived '
             'functions and the user classes is unchanged, and afterwards a '
             'battery of 31 calls (incl. yaml.safe_load/safe_dump probes, '
             'cross-class-set calls and "each function builds its own '
             'classes") equals the fresh-function baseline. The snapshot '
             'includes module-level containers and mutable default arguments '
             'of yatiml. Two operations interleaved: operation A suspended '
             'at its k-th call-back into user code (hooks, constructors, '
             'read()/write() of a source or sink) or at its k-th log call '
             '(a logging handler; every 6th point in the quick tier), a '
             'whole operation B (also on the same function objects) runs, A '
             'resumes: no transient write to shared state, both results as '
             'alone. Pre-emption between bytecodes that no call-back or log '
             'call separates is NOT covered.',
        design='4/C11',
        note='Trusted base: CPython, CrossHair, z3; per path everything is '
             'concrete (the solver chooses the history, the suspended '
             'operation, the pre-emption point and the operation run in '
             'between). Of thread schedules only those are decided in which '
             'the other thread runs a whole operation at a call-back or log '
             'call of the suspended one; finer pre-emption is outside the '
             'claim.'),
    'C17': dict(
        text='Bounded model checking of the error-reporting path (real '
             'message builders and difflib, one concrete line per node): a '
             'valid document of 10 class models with one solver-chosen '
             'corruption at any node (wrong scalar type, misspelt key, '
             'dropped required key, added key, unknown enum member also '
             'spelt like a boolean) must '
             'raise RecognitionError citing only lines inside the document, '
             'among them the line of the corrupted node, its key or an '
             'enclosing mapping, and quoting the unknown/missing key; every '
             'RecognitionError of the single-mutation document space and of '
             'the empty document cites a position inside the document '
             '(incl. a model where a value matches two sibling subclasses).',
        design='4/C17'),
    'C10': dict(
        text='Bounded model checking of the hook calling protocol: for all '
             '2^5 subsets of classes (chain A<-B<-C, sibling, unregistered '
             'mix-in, also named like a registered class) defining _yatiml_savorize / _yatiml_sweeten / '
             '_yatiml_recognize in their own body, documents and objects '
             'denoting each class at 5 positions: the recorded call trace '
             'equals the base-first own-body hooks of the registered chain, '
             'each once, before the constructor; recognisers are called only '
             'with their defining class; SeasoningError (with or without a '
             'message) becomes RecognitionError. The same for classes written '
             'as scalars (UserString and Enum hierarchies) for savorize and '
             'sweeten.',
        design='4/C10'),
    'C12': dict(
        text='Bounded end-to-end symbolic execution of the generated load, '
             'dump and dump_json functions on solver-chosen values and '
             'documents (valid and invalid): text written to a file name, a '
             'Path, a text stream and open files with their own encodings '
             'equals the dumps variant for the same '
             'options; str, Path, text stream and binary stream (UTF-8, BOM, '
             'UTF-16) sources give equal results or the same error class; a '
             'value the string variant refuses is refused by every sink '
             'variant. '
             'The thinnest claim of the set: per path everything is '
             'concrete.',
        design='4/C12'),
    'C06': dict(
        text='Bounded end-to-end symbolic execution of the public dumps '
             'function on solver-chosen values of 23 class models (incl. '
             'node-replacing sweeten with repeated objects, scalars set '
             'through the Node helpers, structural transforms on shared '
             'items): purity '
             '(structural snapshot), determinism (also of the JSON flavour '
             'around a refused dump), exactly one well-formed '
             'document, no explicit tag on any node (PyYAML parse events), '
             'and safe_load(text) equal to the independently computed '
             'projection with mapping order significant.',
        design='4/C06'),
    'C07': dict(
        text='One inductive step of the JSON event emitter from an arbitrary '
             'valid state (symbolic state stack, indent counters, options, '
             'event) against the transition relation of a JSON pushdown '
             'printer, which covers event histories of any length; plus '
             'bounded whole documents through dumps_json (24 tree shapes x 30 '
             'leaves x indent x ensure_ascii: strict RFC 8259, content, '
             'ASCII/compact defaults), the dump_json sinks judged on their own, '
             'also after a dump that was aborted half way, and reload with the matching load '
             'function.',
        design='4/C07'),
    'C05': dict(
        engine='E2-z3-regex',
        text='All-strings scalar lemmas decided by z3 over the real resolver '
             'tables of a generated dumper and loader (whatever the dumper '
             'may write plain as str/int/float/bool/null/date comes back with '
             'that type), plus bounded end-to-end symbolic execution of '
             'load(dumps(v)) == v over the factor space of 15 class models '
             '(adversarial strings, non-finite floats, dates, paths, enums, '
             'string-likes and keys, extras, default-dropping sweeten, '
             'sweeten/savorize inverse pairs incl. non-idempotent ones '
             'inherited from a registered base, shared sub-objects and shared '
             'string-like keys).',
        design='4/C05',
        technique='SMT (z3 regex theory) over the live dumper/loader resolver '
                  'tables for the all-strings part; CrossHair bounded '
                  'end-to-end round trips on solver-chosen values',
        note='Trusted base: re->z3 translator and resolve encoding (validated '
             'on every run), PyYAML emitter contract (a str is written plain '
             'only if the dumper resolves its value to str), '
             'float(repr(x))==x, CrossHair, z3.'),
    'C03': dict(
        text='Bounded model checking of the real Recognizer on eight class '
             'hierarchies (abstract middle, unregistered middle, ambiguous '
             'fan, diamond, custom discriminating recognisers, custom above '
             'automatic, abstract by inheritance only, three concrete levels '
             'with ambiguous leaves) and '
             'Union/Optional types over them with FREE symbolic top-level and '
             'value tags, against the most-derived-unique-match rule; and at '
             'load level every permutation of Union members and of the '
             'registration order must give the canonical outcome and the '
             'reference class.',
        design='4/C03'),
    'C02': dict(
        text='Differential bounded model checking: the real load pipeline '
             'against a naive reference interpreter of the documented rules '
             '(vlib/ref.py) on the symbolic single-mutation document space of '
             '26 auto-recognised class models (incl. aliases, a defaulted '
             '_yatiml_extra inside a Union, top-level collections of '
             'string-written classes, declarative seasoning, '
             'dashed keys, defaults, _yatiml_extra, enums, string-likes, an '
             'abstract hierarchy): rejects iff the reference rejects, '
             'otherwise structurally equal values.',
        design='4/C02',
        note='Trusted base: the reference interpreter vlib/ref.py (about 250 '
             'lines, written from the documentation), PyYAML\'s '
             'SafeConstructor for plain data and scalar parsing, CPython, '
             'CrossHair, z3; stubs and bounds as listed in the evidence.'),
    'C13': dict(
        text='Oracle-free pairs on the real pipeline: valid and singly '
             'mutated documents of 24 class models are loaded twice, the '
             'second time with every mapping\'s entries rotated/reversed, '
             'with all scalar/collection styles and marks changed, with three '
             'unrelated classes registered, with List/Sequence/'
             'MutableSequence and Dict/Mapping/MutableMapping interchanged, '
             'with bool_union_fix added (at the end or right after bool), or '
             '-- for documents in which one node is an alias of another -- '
             'rewritten in JSON style with every alias written out; both loads must fail or give '
             'structurally equal values.',
        design='4/C13'),
    'C18': dict(
        text='Oracle-free pairs on the real pipeline: for every ordered pair '
             'of nodes (i, j) of the base documents of 25 class models (i not '
             'an ancestor of j; node i optionally retagged), the document in '
             'which j IS node i (what an alias composes to) must load exactly '
             'like the document with a copy of i at j, or both must fail; 9 '
             'self-referential shapes x 7 document types must be rejected '
             'with an error other than RecursionError. Also: two aliases '
             '(incl. an alias inside an aliased collection) on small and '
             'nested models against a deep copy; the aliased document read '
             'through yaml.load_all (Loader.get_node); one node with up to '
             '256 aliases as real text.',
        design='4/C18'),
    'C04': dict(
        text='Same symbolic document space as C01 on models with Any / '
             'untyped / _yatiml_extra positions and a registered class (Trap) '
             'that no typed position admits: tags (registered class names, a '
             'free tag, !!python/*, core tags) are injected at every node; '
             'evaluated on return AND on exception: Trap is never '
             'constructed, every __init__ got conforming arguments, values '
             'below Any/extra positions are plain data, the canary module is '
             'never imported.',
        design='4/C04'),
    'C15': dict(
        text='Bounded model checking of the four structural transforms and '
             'the two key-renaming helpers on symbolic node shapes (attribute '
             'absent/scalar/sequence/mapping, items of 12 kinds, equal or '
             'distinct ids, value attribute, strict) against a reference '
             'written from the docstrings: documented shape, unchanged when '
             'not applicable, SeasoningError only for duplicate keys in '
             'strict mode, both inverse laws, dash/underscore laws over free '
             'symbolic key strings.',
        design='4/C15'),
    'C16': dict(
        text='Bounded model checking of UnknownNode.require_* on nodes with '
             'FREE symbolic tags and a FREE attribute name against predicates '
             'written from the docstrings (require_attribute with 16 types '
             'goes through the real Recognizer); RecognitionError is the only '
             'exception allowed and the node snapshot must be unchanged.',
        design='4/C16'),
    'C01': dict(
        text='Bounded model checking of the real load pipeline driven through '
             'the public load function (composer stubbed): for 24 class '
             'models, every single-point mutation of valid base documents '
             '(one kind of which turns a node into an alias of another), '
             'with a free symbolic tag, palette (tag, value) pairs, '
             'collection shapes and keys, and the empty stream; the returned '
             'value and every recorded __init__ call are checked against the '
             'declared types by an independent conformance oracle.',
        design='4/C01'),
    'C08': dict(
        text='Same symbolic document space as C01 (27 models, incl. the '
             'seasoned/dashed ones and classes discriminated by attribute '
             'values) plus self-referential '
             'alias graphs; the assertion is that the load returns or raises '
             'RecognitionError/YAMLError only (malformed values under explicit '
             'core tags, duplicate and complex keys, merge keys, raising '
             'constructors/string-likes/savorize hooks, cycles).',
        design='4/C08'),
    'C09': dict(
        engine='E2-z3-regex',
        text='Decided for strings of every length: the implicit-resolver '
             'table of a live yatiml Loader instance and PyYAML\'s '
             'Resolver.resolve are encoded as z3 regex terms on every run; '
             'float/bool soundness and completeness against the YAML 1.2 '
             'grammar, resolve/construct agreement and "int/null/timestamp '
             'typing is PyYAML\'s" are unsat queries (sat witnesses are '
             'replayed through load_function()). Plus bounded end-to-end '
             'symbolic execution of the public load function over all strings '
             'up to length 3 (thorough 5) over the number alphabet and case '
             'variants of boolean/number look-alikes (incl. non-ASCII '
             'digits), each also at positions typed bool/float/int/str/'
             'List[float] and at positions where classes meet scalars (a '
             'string-like class next to float, an enum and a bool at one key '
             'in two candidates, hooks reading the scalar with get_value / '
             'require_attribute_value), which must agree with the resolver.',
        design='4/C09',
        technique='SMT (z3 string/regex theory) over the real resolver '
                  'tables, unbounded in string length; CrossHair bounded '
                  'end-to-end runs; cvc5 cross-check in the thorough tier',
        note='Trusted base: the re->z3 translator and the encoding of '
             'Resolver.resolve (both validated on every run against '
             're.match / Loader.resolve on a corpus and on every witness), '
             'z3; the domain excludes strings containing a newline.'),
    'C14': dict(
        text='Bounded model checking by symbolic execution of the real '
             'yatiml.Node methods: every 2-operation (thorough: 3) sequence '
             'over free symbolic argument strings against an '
             'association-list model; classification over a free tag; '
             'set_value/get_value; get_value vs. the loader\'s scalar '
             'constructors for every string up to length 3 (thorough 4) over '
             'the number alphabet; remove_attributes_with_default_values '
             'over (default, value) palettes.',
        design='4/C14'),
}

NOT_YET = 'check not built yet in this round (see DESIGN.md section 4 for the plan)'


def main():
    props = [json.loads(l) for l in open(os.path.join(VERIF, 'properties.jsonl'))]
    checks, na = [], []
    for p in props:
        pid = p['id']
        c = CHECKS.get(pid)
        if not c:
            na.append({'property_id': pid, 'reason': c_reason.get(pid, NOT_YET)})
            continue
        checks.append({
            'property_id': pid,
            'quick_cmd': 'python3 check.py %s quick' % pid,
            'thorough_cmd': 'python3 check.py %s thorough' % pid,
            'evidence_file': 'evidence/%s.json' % pid,
            'replay_cmd_template': 'python3 check.py --replay {path}',
            'engine': c.get('engine', 'E1-crosshair'),
            'level_claimed': {'category': 'model_checking', 'text': c['text'],
                              'design_ref': c['design']},
            'level_note': c.get('note', E1_NOTE),
            'technique': c.get('technique', E1_TECH),
        })
    man = {
        'version': 1,
        'setup_cmd': 'python3 vlib/bootstrap.py',
        'hooks': {
            'guard': 'YATIML_VERIF',
            'enable': 'no hooks in /repo: all instrumentation is on the '
                      'harness side (self-instrumenting classes, stubs on '
                      'PyYAML/stdlib objects inside the check process)',
            'baseline_off_cmd': 'cd /repo && /venv/bin/python -m pytest -q '
                                '-p no:cacheprovider --timeout=900',
            'source_commits': [],
            'add_only': True,
        },
        'engines': [
            {'name': 'E1-crosshair', 'path': 'vlib/engine.py',
             'serves_properties': [c['property_id'] for c in checks
                                   if c['engine'] == 'E1-crosshair'],
             'kind_free_text': 'CrossHair symbolic execution of the real '
                               'modules from /repo, one condition per worker '
                               'process, verdict = Confirmed over all paths '
                               '/ counterexample (replayed) / inconclusive'},
            {'name': 'E2-z3-regex', 'path': 'vlib/smtre.py',
             'serves_properties': [c['property_id'] for c in checks
                                   if c['engine'] == 'E2-z3-regex'],
             'kind_free_text': 'z3 string/regex queries over the implicit '
                               'resolver tables read from live Loader/Dumper '
                               'objects on every run'},
        ],
        'checks': checks,
        'not_applicable': na,
        'notes': 'See DESIGN.md. exit 3 from a check = harness error (never '
                 'a VIOLATION line). known_findings.json lists recorded '
                 'findings and fixed defects.',
    }
    json.dump(man, open(os.path.join(VERIF, 'MANIFEST.json'), 'w'), indent=1)
    try:
        import jsonschema
        jsonschema.validate(man, json.load(open('/root/.vp/MANIFEST.schema.json')))
        print('MANIFEST.json valid: %d checks, %d not_applicable' % (len(checks), len(na)))
    except ImportError:
        print('written (jsonschema not available to validate)')


c_reason = {}

if __name__ == '__main__':
    main()
