#!/usr/bin/env python3
"""Re-verify every seeded change under /verif/seeded and run the designated
quick checks against it (sequentially; /repo is patched and restored per
seed).   seed_all.py [seed id prefix ...]"""
import json
import os
import subprocess
import sys

VERIF = os.path.dirname(os.path.dirname(os.path.abspath(__file__)))
# which checks are expected to be relevant for a seed (its own property's
# check first; others where the change also breaks their property)
EXTRA = {
    'C01-s2': ['C04'], 'C01-s3': ['C04'], 'C05-s2': ['C18'],
    'C05-s3': ['C10'], 'C06-s1': ['C10'], 'C07-s2': ['C12'],
    'C07-s3': ['C11'], 'C03-s2': ['C02'], 'C03-s3': ['C02'],
    'C18-s2': ['C08'],
}


def main():
    want = sys.argv[1:]
    ids = sorted(d for d in os.listdir(os.path.join(VERIF, 'seeded'))
                 if os.path.isdir(os.path.join(VERIF, 'seeded', d)))
    for sid in ids:
        if want and not any(sid.startswith(w) for w in want):
            continue
        d = os.path.join(VERIF, 'seeded', sid)
        prop = sid.split('-')[0]
        note = os.path.join(d, 'note.txt')
        if not os.path.exists(note):
            meta = json.load(open(os.path.join(d, 'meta.json')))
            open(note, 'w').write(meta.get('note', ''))
        checks = [prop] + EXTRA.get(sid, [])
        # work on copies: seed_eval rewrites the directory
        tmp = '/tmp/seed_in_' + sid
        subprocess.run(['rm', '-rf', tmp])
        subprocess.run(['cp', '-r', d, tmp], check=True)
        subprocess.run(['python3', os.path.join(VERIF, 'tools',
                                                'seed_eval.py'), sid,
                        tmp + '/patch.diff', tmp + '/demo.py',
                        tmp + '/note.txt', prop] + checks, cwd=VERIF)
        subprocess.run(['cp', tmp + '/note.txt', d + '/note.txt'])
        subprocess.run(['rm', '-rf', tmp])


if __name__ == '__main__':
    main()
