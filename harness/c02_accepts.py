"""C02 -- load accepts exactly what the documented pipeline admits and builds
that value.

Differential: the real load pipeline (driven through the public load
function, composer stubbed) against vlib.ref.Ref, a naive interpreter of the
documented rules, on the same symbolic document space as C01.
"""
import yaml

import yatiml
from vlib import pipeline, ref, zoo
from vlib.common import (SYMBOLIC, install_stubs, note, plain, slice_no,
                         tier)
from vlib.pipeline import MODELS, MUT_SETVAL, clone, explore, run_load

install_stubs()
QUICK = tier() == 'quick'
LIM = pipeline.Limits(QUICK)

ENCODED = pipeline.PIPELINE_ENCODED
ASSUMPTIONS = pipeline.PIPELINE_ASSUMPTIONS + [
    'reference semantics: vlib/ref.py Ref (recognition by exact tag / '
    'element-wise / by required constructor parameters with dashed-key '
    'alternative; most-derived unique match; savorize hooks of the class '
    'model are run as user code; construction bottom-up with omitted '
    'optionals left to Python defaults, extras as an ordered mapping of '
    'plain data); plain YAML data below Any/extra and the parsing of scalar '
    'values are PyYAML\'s SafeConstructor (trusted)',
    'models: all core models except the permissive custom recogniser, plus '
    'a model with declarative seasoning (dashes_to_unders_in_keys, '
    'map_attribute_to_seq), dashed keys, defaults and _yatiml_extra',
    'no claim (either outcome accepted): a key literally named "self" or '
    '"_yatiml_extra"; a '
    'tag naming a registered ancestor that itself matches a node recognised '
    'as a subclass',
    'a real outcome "raises RecognitionError or YAMLError" counts as '
    'rejection (which of the two is C08\'s business)',
]

_REFS = {}


def _ref(mi):
    if mi not in _REFS:
        _REFS[mi] = ref.Ref(MODELS[mi][2], pipeline.loader_for(mi).loader)
    return _REFS[mi]


def _before(mi, b):
    """Reference outcome, computed on a copy of the original document."""
    doc = clone(b.root)
    try:
        return ('value', plain(_ref(mi).load(doc, MODELS[mi][1])))
    except ref.Reject as e:
        return ('fails', str(e) if not SYMBOLIC else '')
    except ref.NoClaim as e:
        return ('noclaim', '')


def _check(mi, outcome, val, built):
    want = built.pre
    if outcome == 'raise':
        if not isinstance(val, (yatiml.RecognitionError, yaml.YAMLError)):
            got = ('error', type(val).__name__)     # C08's finding, not ours
            if not SYMBOLIC:
                note(real=got, reference=want)
            return True
        got = ('fails',)
    else:
        got = ('value', plain(val))
    if not SYMBOLIC:
        note(real=got if got[0] != 'fails' else 'fails: %s' % str(val)[-200:],
             reference=want)
    if want[0] == 'noclaim':
        return True
    if want[0] == 'fails':
        return got[0] == 'fails'
    return got == want


def mutants(site: int, mut: int, rsel: int, tag: str, vsel: int,
            ksel: int) -> bool:
    """
    pre: 0 <= site < 28 and 0 <= mut < 8 and 0 <= rsel < 90
    pre: 1 <= len(tag) <= 40 and tag != '!'
    pre: not tag.startswith('tag:yaml.org,2002:')
    pre: 0 <= vsel < 20 and 0 <= ksel < 15
    post: __return__
    """
    r = explore(slice_no(0), site, mut, rsel, tag, vsel, ksel, LIM, _check,
                _before)
    return True if r is None else r[1]


def mutants_reach(site: int, mut: int, rsel: int, tag: str, vsel: int,
                  ksel: int) -> bool:
    """
    pre: 0 <= site < 28 and 0 <= mut < 8 and 0 <= rsel < 90
    pre: 1 <= len(tag) <= 40 and tag != '!'
    pre: not tag.startswith('tag:yaml.org,2002:')
    pre: 0 <= vsel < 20 and 0 <= ksel < 15
    post: __return__
    """
    r = explore(slice_no(0), site, mut, rsel, tag, vsel, ksel, LIM, _check,
                _before)
    if r is None:
        return True
    # witness: a changed document on which both agree on a VALUE
    return not (r[1] and r[0] == 'ok' and mut == MUT_SETVAL)


CONDITIONS = [
    {'fn': 'mutants', 'slices': pipeline.C02_SLICES,
     'quick_slices': pipeline.C02_QUICK_SLICES, 'quick': 160,
     'thorough': 300, 'bound': pipeline.MUTANT_BOUND},
    {'fn': 'mutants_reach',
     'slices': [pipeline.slice_for('order', 0, 2)],
     'quick': 100, 'thorough': 100, 'expect': 'REFUTED',
     'bound': 'reachability twin: real and reference agree on a value for a '
              'seasoned, dashed document with a changed scalar'},
]
