"""C01 -- a loaded value always conforms to the declared type.

The real load pipeline is executed symbolically through the public load
function (composer stubbed); see vlib/pipeline.py for the document space.
"""
from vlib import pipeline, ref, zoo
from vlib.common import (SYMBOLIC, install_stubs, note, plain, slice_no,
                         tier)
from vlib.pipeline import MODELS, MUT_SETVAL, explore, run_load

install_stubs()
QUICK = tier() == 'quick'
LIM = pipeline.Limits(QUICK)

ENCODED = pipeline.PIPELINE_ENCODED
ASSUMPTIONS = pipeline.PIPELINE_ASSUMPTIONS


def _check(mi, outcome, val, built=None):
    """C01's assertion on one load outcome."""
    if outcome == 'raise':
        return True                     # which exception: C08's business
    name, doc_type, classes, _ = MODELS[mi]
    bad = ref.trace_conforms(zoo.TRACE, classes)
    if bad:
        if not SYMBOLIC:
            note(outcome='returned', value=plain(val), offending_call=bad)
        return False
    ok = ref.conforms(val, doc_type, classes)
    if not SYMBOLIC:
        note(outcome='returned', value=plain(val), declared=doc_type,
             conforms=ok)
    return ok


def mutants(site: int, mut: int, rsel: int, tag: str, vsel: int,
            ksel: int) -> bool:
    """
    pre: 0 <= site < 28 and 0 <= mut < 8 and 0 <= rsel < 90
    pre: 1 <= len(tag) <= 40 and tag != '!'
    pre: not tag.startswith('tag:yaml.org,2002:')
    pre: 0 <= vsel < 20 and 0 <= ksel < 15
    post: __return__
    """
    r = explore(slice_no(0), site, mut, rsel, tag, vsel, ksel, LIM, _check)
    return True if r is None else r[1]


def mutants_reach(site: int, mut: int, rsel: int, tag: str, vsel: int,
                  ksel: int) -> bool:
    """
    pre: 0 <= site < 28 and 0 <= mut < 8 and 0 <= rsel < 90
    pre: 1 <= len(tag) <= 40 and tag != '!'
    pre: not tag.startswith('tag:yaml.org,2002:')
    pre: 0 <= vsel < 20 and 0 <= ksel < 15
    post: __return__
    """
    r = explore(slice_no(0), site, mut, rsel, tag, vsel, ksel, LIM, _check)
    if r is None:
        return True
    # witness: a *mutated* document that still loads to a conforming value
    return not (r[1] and r[0] == 'ok' and mut == MUT_SETVAL)


def empty_stream(which: int) -> bool:
    """
    pre: 0 <= which < 30
    post: __return__
    """
    for mi in range(len(MODELS)):       # concrete model index per path
        if which == mi:
            outcome, val = run_load(mi, None)
            note(model=MODELS[mi][0])
            return _check(mi, outcome, val)
    return True


def doubles(m1: int, site: int, mut: int, rsel: int, tag: str, vsel: int,
            ksel: int) -> bool:
    """
    pre: 0 <= m1 < 6 and 0 <= site < 28 and 0 <= mut < 6 and 0 <= rsel < 90
    pre: 1 <= len(tag) <= 40 and tag != '!'
    pre: not tag.startswith('tag:yaml.org,2002:')
    pre: 0 <= vsel < 20 and 0 <= ksel < 15
    post: __return__
    """
    r = pipeline.explore2(slice_no(0), m1, site, mut, rsel, tag, vsel, ksel,
                          _check)
    return True if r is None else r[1]


CONDITIONS = [
    {'fn': 'doubles', 'slices': pipeline.double_slices(), 'quick': None,
     'thorough': 300,
     'bound': 'TWO simultaneous mutations on the first base document of 4 '
              'models: one slice per first site; first mutation = drop the '
              'entry / set one of 3 values / retag str or int; second '
              'mutation = any single-point mutation of the quick palettes at '
              'any other site'},
    {'fn': 'mutants', 'slices': pipeline.ALL_SLICES_A,
     'quick_slices': pipeline.QUICK_SLICES_A, 'quick': 160, 'thorough': 300,
     'bound': pipeline.MUTANT_BOUND},
    {'fn': 'mutants_reach',
     'slices': [pipeline.slice_for('plain', 0, 2),
                pipeline.slice_for('styled', 0, 2)],
     'quick': 100, 'thorough': 100, 'expect': 'REFUTED',
     'bound': 'reachability twin: a document with a changed scalar value '
              'that still loads'},
    {'fn': 'empty_stream', 'quick': 60, 'thorough': 60,
     'bound': 'the empty stream for each of the 16 document types'},
]
