"""C15 -- structural seasoning transforms are inverse pairs and no-ops when
not applicable.

Real code executed symbolically: yatiml.helpers.Node.seq_attribute_to_map,
map_attribute_to_seq, index_attribute_to_map, map_attribute_to_index,
unders_to_dashes_in_keys, dashes_to_unders_in_keys (and the accessors they
use).  The reference below is written from the docstrings and the property.
"""
import yaml

import yatiml
from yatiml.exceptions import SeasoningError
from vlib.common import (SYMBOLIC, T_INT, T_MAP, T_SEQ, T_STR, install_stubs,
                         mapping, note, pick, scalar, seq, slice_no)

install_stubs()

ENCODED = [
    'yatiml.helpers.Node.seq_attribute_to_map', 'Node.map_attribute_to_seq',
    'Node.index_attribute_to_map', 'Node.map_attribute_to_index',
    'Node.unders_to_dashes_in_keys', 'Node.dashes_to_unders_in_keys',
    'Node.has_attribute/get_attribute/set_attribute/remove_attribute/'
    'is_scalar/is_mapping/is_sequence/seq_items/get_value/make_mapping']
ASSUMPTIONS = [
    'S1 node formatting stub',
    'nodes: a mapping whose attribute "items" is absent / a scalar / a '
    'sequence of <= 2 items / a mapping of <= 2 entries; an item is a '
    'mapping with any subset of the keys {id, v, w}, a scalar, a sequence, '
    'a mapping whose id is an int, or a mapping whose v holds a mapping; id '
    'values equal or distinct; key attribute "id", value attribute None or '
    '"v"; strict or not',
    'outside the property\'s precondition and accepted either way (unchanged '
    'or SeasoningError): items that are mappings but lack the key attribute '
    'or whose key value is not a string; map_attribute_to_index / '
    'map_attribute_to_seq on items that already contain the key attribute',
    'inverse laws are claimed where the value attribute does not hold a '
    'mapping (the property\'s proviso) and, for the index pair, where the '
    'inner key value equals the outer key (that is what an index is)',
    'dash/underscore laws: <= 2 keys, free strings of length <= 3 / <= 2, '
    'plus an optional complex key',
]


# ------------------------------------------------------------ node building
def _item(kind: int, idval: str):
    """kind 0..7: mapping with keys chosen by bits (1 id, 2 v, 4 w);
    8 scalar; 9 sequence; 10 mapping with int id; 11 mapping whose v holds a
    mapping (plus id)."""
    if kind == 8:
        return scalar(T_STR, 'sc')
    if kind == 9:
        return seq([scalar(T_STR, 'x')])
    if kind == 10:
        return mapping([(scalar(T_STR, 'id'), scalar(T_INT, '7')),
                        (scalar(T_STR, 'v'), scalar(T_STR, 'val'))])
    if kind == 11:
        return mapping([(scalar(T_STR, 'id'), scalar(T_STR, idval)),
                        (scalar(T_STR, 'v'),
                         mapping([(scalar(T_STR, 'deep'),
                                   scalar(T_INT, '1'))]))])
    ents = []
    if kind & 4:
        ents.append((scalar(T_STR, 'w'), scalar(T_INT, '3')))
    if kind & 1:
        ents.append((scalar(T_STR, 'id'), scalar(T_STR, idval)))
    if kind & 2:
        ents.append((scalar(T_STR, 'v'), scalar(T_STR, 'val' + idval)))
    return mapping(ents)


def _doc(shape: int, n: int, k1: int, k2: int, dup: bool, outer_keys=False):
    """The top mapping {first: 1, items: <attr>, last: 2}."""
    ids = ['a', 'a' if dup else 'b']
    kinds = [k1, k2][:n]
    if shape == 0:
        attr = None
    elif shape == 1:
        attr = scalar(T_STR, 'just a scalar')
    elif shape == 2:
        attr = seq([_item(k, ids[i]) for i, k in enumerate(kinds)])
    else:
        # outer keys are a, b (YAML mappings have unique keys); for the index
        # transforms the inner id equals the outer key unless dup is set,
        # in which case the second item's id differs from its key
        inner = ['a', 'zz' if dup else 'b']
        attr = mapping([(scalar(T_STR, ['a', 'b'][i]),
                         _item(k, inner[i] if outer_keys else ids[i]))
                        for i, k in enumerate(kinds)])
    ents = [(scalar(T_STR, 'first'), scalar(T_INT, '1'))]
    if attr is not None:
        ents.append((scalar(T_STR, 'items'), attr))
    ents.append((scalar(T_STR, 'last'), scalar(T_INT, '2')))
    return yatiml.Node(mapping(ents))


def view(n):
    """Plain-data view of a node tree."""
    if isinstance(n, yaml.ScalarNode):
        return ('s', n.tag, n.value)
    if isinstance(n, yaml.SequenceNode):
        return ('q', n.tag, [view(x) for x in n.value])
    return ('m', n.tag, [(view(k), view(v)) for k, v in n.value])


# ----------------------------------------------------------- the reference
OUTSIDE = 'outside'      # no claim
RAISES = 'raises'


def _key_of(entry):
    k = entry[0]
    return k[2] if k[0] == 's' else None


def _attr(v, name):
    for i, (k, x) in enumerate(v[2]):
        if k[0] == 's' and k[2] == name:
            return i
    return None


def _with_attr(v, new_attr):
    i = _attr(v, 'items')
    ents = list(v[2])
    ents[i] = (ents[i][0], new_attr)
    return ('m', v[1], ents)


def ref_seq_to_map(v, key, val, strict):
    i = _attr(v, 'items')
    if i is None:
        return v
    a = v[2][i][1]
    if a[0] != 'q':
        return v
    items = a[2]
    seen = []
    for it in items:
        if it[0] != 'm':
            continue
        hits = [e for e in it[2] if _key_of(e) == key]
        if len(hits) != 1:
            return OUTSIDE
        kv = hits[0][1]
        if kv[0] != 's' or kv[1] != T_STR:
            return OUTSIDE
        seen.append(kv[2])
    if any(it[0] != 'm' for it in items):
        return v                         # not a sequence of mappings
    if len(set(seen)) != len(seen):
        return RAISES if strict else v
    out = []
    for it in items:
        kv = [e for e in it[2] if _key_of(e) == key][0][1]
        rest = [e for e in it[2] if _key_of(e) != key]
        if val is not None and len(rest) == 1 and _key_of(rest[0]) == val:
            out.append((kv, rest[0][1]))
        else:
            out.append((kv, ('m', it[1], rest)))
    return _with_attr(v, ('m', T_MAP, out))


def ref_map_to_seq(v, key, val):
    i = _attr(v, 'items')
    if i is None:
        return v
    a = v[2][i][1]
    if a[0] != 'm':
        return v
    if val is None and any(x[0] != 'm' for _, x in a[2]):
        return v                         # invalid format: do nothing
    out = []
    for k, x in a[2]:
        if k[0] != 's':
            return OUTSIDE
        if x[0] != 'm':
            ents = [(('s', T_STR, val), x)]
        else:
            ents = list(x[2])
            if any(_key_of(e) == key for e in ents):
                return OUTSIDE
        ents = ents + [(('s', T_STR, key), ('s', T_STR, k[2]))]
        out.append(('m', T_MAP if x[0] != 'm' else x[1], ents))
    return _with_attr(v, ('q', T_SEQ, out))


def ref_index_to_map(v, key, val):
    i = _attr(v, 'items')
    if i is None:
        return v
    a = v[2][i][1]
    if a[0] != 'm':
        return v
    if any(x[0] != 'm' for _, x in a[2]):
        return v                         # not a mapping of mappings
    out = []
    for k, x in a[2]:
        rest = [e for e in x[2] if _key_of(e) != key]
        if val is not None and len(rest) == 1 and _key_of(rest[0]) == val:
            out.append((k, rest[0][1]))
        else:
            out.append((k, ('m', x[1], rest)))
    return _with_attr(v, ('m', a[1], out))


def ref_map_to_index(v, key, val):
    i = _attr(v, 'items')
    if i is None:
        return v
    a = v[2][i][1]
    if a[0] != 'm':
        return v
    out = []
    for k, x in a[2]:
        if x[0] != 'm':
            if val is None:
                out.append((k, x))
                continue
            ents, tag = [(('s', T_STR, val), x)], T_MAP
        else:
            ents, tag = list(x[2]), x[1]
            if any(_key_of(e) == key for e in ents):
                return OUTSIDE
        out.append((k, ('m', tag, ents + [(('s', T_STR, key), k)])))
    return _with_attr(v, ('m', a[1], out))


# ------------------------------------------------------------- conditions
def _apply(node, t, val, strict):
    if t == 0:
        node.seq_attribute_to_map('items', 'id', val, strict)
    elif t == 1:
        node.map_attribute_to_seq('items', 'id', val)
    elif t == 2:
        node.index_attribute_to_map('items', 'id', val)
    else:
        node.map_attribute_to_index('items', 'id', val)


def _ref(v, t, val, strict):
    if t == 0:
        return ref_seq_to_map(v, 'id', val, strict)
    if t == 1:
        return ref_map_to_seq(v, 'id', val)
    if t == 2:
        return ref_index_to_map(v, 'id', val)
    return ref_map_to_index(v, 'id', val)


def _single(t, shape, n, k1, k2, dup, useval, strict):
    node = _doc(shape, n, k1, k2, dup, outer_keys=(t >= 2))
    before = view(node.yaml_node)
    val = 'v' if useval else None
    want = _ref(before, t, val, strict)
    try:
        _apply(node, t, val, strict)
    except SeasoningError as e:
        if not SYMBOLIC:
            note(transform=t, before=before, raised='SeasoningError: %s' % e,
                 expected=want)
        return want in (RAISES, OUTSIDE)
    except Exception as e:   # noqa
        if not SYMBOLIC:
            note(transform=t, before=before,
                 raised='%s: %s' % (type(e).__name__, e), expected=want)
        return False
    after = view(node.yaml_node)
    if not SYMBOLIC:
        note(transform=t, value_attribute=val, strict=strict, before=before,
             after=after, expected=want)
    if want == OUTSIDE:
        return True
    if want == RAISES:
        return False
    return after == want


def single(t: int, shape: int, n: int, k1: int, k2: int, dup: bool,
           useval: bool, strict: bool) -> bool:
    """
    pre: 0 <= t < 4 and 0 <= shape < 4 and 0 <= n <= 2
    pre: 0 <= k1 < 12 and 0 <= k2 < 12
    post: __return__
    """
    s = slice_no(-1)
    if s >= 0 and t != s:
        return True
    return _single(t, shape, n, k1, k2, dup, useval, strict)


def single_reach(t: int, shape: int, n: int, k1: int, k2: int, dup: bool,
                 useval: bool, strict: bool) -> bool:
    """
    pre: 0 <= t < 4 and 0 <= shape < 4 and 0 <= n <= 2
    pre: 0 <= k1 < 12 and 0 <= k2 < 12
    post: __return__
    """
    s = slice_no(-1)
    if s >= 0 and t != s:
        return True
    ok = _single(t, shape, n, k1, k2, dup, useval, strict)
    # witness: a real short-form conversion
    return not (ok and n == 2 and k1 == 3 and k2 == 7 and useval
                and shape == (2 if t == 0 else 3) and not dup)


def _norm_item(it, key):
    """item with the key attribute moved to the end (the inverse laws hold
    up to its position)."""
    if it[0] != 'm':
        return it
    ks = [e for e in it[2] if _key_of(e) == key]
    return ('m', it[1], [e for e in it[2] if _key_of(e) != key] + ks)


def _norm(v, key):
    i = _attr(v, 'items')
    if i is None:
        return v
    a = v[2][i][1]
    if a[0] == 'q':
        return _with_attr(v, ('q', a[1], [_norm_item(x, key) for x in a[2]]))
    if a[0] == 'm':
        return _with_attr(v, ('m', a[1], [(k, _norm_item(x, key))
                                          for k, x in a[2]]))
    return v


def _inverse(pair, n, k1, k2, useval):
    """pair 0: map_to_seq(seq_to_map(x)) == x ; pair 1:
    map_to_index(index_to_map(x)) == x  (x well-formed)."""
    for k in [k1, k2][:n]:
        if not (k < 8 and k & 1):       # mappings that have the id key
            return True
        if not useval and False:
            return True
    node = _doc(2 if pair == 0 else 3, n, k1, k2, False, outer_keys=True)
    before = view(node.yaml_node)
    val = 'v' if useval else None
    try:
        if pair == 0:
            node.seq_attribute_to_map('items', 'id', val, True)
            mid = view(node.yaml_node)
            node.map_attribute_to_seq('items', 'id', val)
        else:
            node.index_attribute_to_map('items', 'id', val)
            mid = view(node.yaml_node)
            node.map_attribute_to_index('items', 'id', val)
    except Exception as e:   # noqa
        if not SYMBOLIC:
            note(pair=pair, before=before,
                 raised='%s: %s' % (type(e).__name__, e))
        return False
    after = view(node.yaml_node)
    if not SYMBOLIC:
        note(pair=pair, value_attribute=val, before=before, middle=mid,
             after=after)
    return _norm(after, 'id') == _norm(before, 'id') and mid != before


def inverse(pair: int, n: int, k1: int, k2: int, useval: bool) -> bool:
    """
    pre: 0 <= pair < 2 and 1 <= n <= 2
    pre: 0 <= k1 < 8 and 0 <= k2 < 8
    post: __return__
    """
    return _inverse(pair, n, k1, k2, useval)


def inverse_reach(pair: int, n: int, k1: int, k2: int, useval: bool) -> bool:
    """
    pre: 0 <= pair < 2 and 1 <= n <= 2
    pre: 0 <= k1 < 8 and 0 <= k2 < 8
    post: __return__
    """
    ok = _inverse(pair, n, k1, k2, useval)
    return not (ok and n == 2 and k1 == 3 and k2 == 7 and useval)


# ---------------------------------------------------- dashes / underscores
_KEYTAGS = [T_STR, T_INT, 'tag:yaml.org,2002:timestamp',
            'tag:yaml.org,2002:float']


def _keys_node(keys, complex_key=False, ktag=0):
    # the FIRST key carries tag number ktag (a key such as 1_000 or
    # 2020-01-01 is a scalar key too, whatever it resolves to)
    ents = [(scalar(pick(_KEYTAGS, ktag) if i == 0 else T_STR, k),
             scalar(T_INT, str(i))) for i, k in enumerate(keys)]
    if complex_key:
        ents.append((seq([scalar(T_STR, 'a_b-c')]), scalar(T_INT, '9')))
    return yatiml.Node(mapping(ents))


def _dashes(n, k1, k2, cx, direction, ktag=0):
    keys = [k1, k2][:n]
    node = _keys_node(keys, cx, ktag)
    if direction == 0:
        # keys free of '-': unders_to_dashes then dashes_to_unders restores
        if any('-' in k for k in keys):
            return True
        node.unders_to_dashes_in_keys()
        mid = [k.value for k, _ in node.yaml_node.value][:n]
        if mid != [k.replace('_', '-') for k in keys]:
            return False
        if any('_' in k for k in mid):
            return False
        node.dashes_to_unders_in_keys()
    else:
        if any('_' in k for k in keys):
            return True
        node.dashes_to_unders_in_keys()
        mid = [k.value for k, _ in node.yaml_node.value][:n]
        if mid != [k.replace('-', '_') for k in keys]:
            return False
        if any('-' in k for k in mid):
            return False
        node.unders_to_dashes_in_keys()
    after = [k.value for k, _ in node.yaml_node.value][:n]
    vals = [v.value for _, v in node.yaml_node.value][:n]
    if not SYMBOLIC:
        note(keys=keys, middle=mid, after=after)
    if cx and view(node.yaml_node.value[n][0]) != (
            'q', T_SEQ, [('s', T_STR, 'a_b-c')]):
        return False
    return after == keys and vals == [str(i) for i in range(n)]


def dashes(n: int, k1: str, k2: str, cx: bool, direction: int,
           ktag: int) -> bool:
    """
    pre: 0 <= n <= 2 and 0 <= direction < 2 and 0 <= ktag < 4
    pre: len(k1) <= 3 and len(k2) <= 2
    post: __return__
    """
    if ktag != 0 and (n != 1 or cx):
        return True         # other key tags: a single key
    return _dashes(n, k1, k2, cx, direction, ktag)


def dashes_reach(n: int, k1: str, k2: str, cx: bool, direction: int) -> bool:
    """
    pre: 0 <= n <= 2 and 0 <= direction < 2
    pre: len(k1) <= 3 and len(k2) <= 2
    post: __return__
    """
    ok = _dashes(n, k1, k2, cx, direction)
    return not (ok and n == 2 and k1 == 'a_b' and direction == 0)


CONDITIONS = [
    {'fn': 'single', 'slices': [0, 1, 2, 3], 'quick': 240, 'thorough': 600,
     'bound': 'one slice per transform: attribute absent/scalar/sequence/'
              'mapping x <= 2 items of 12 kinds each x equal/distinct ids x '
              'value attribute None/"v" x strict; result compared with the '
              'documented shape (or "unchanged")'},
    {'fn': 'single_reach', 'slices': [0, 2], 'quick': 60, 'thorough': 60,
     'expect': 'REFUTED', 'bound': 'reachability twin: a short-form '
     'conversion really happened'},
    {'fn': 'inverse', 'quick': 100, 'thorough': 100, 'twin': 'inverse_reach',
     'bound': 'both inverse pairs on 1..2 items with every subset of extra '
              'keys {v, w}, value attribute None/"v"'},
    {'fn': 'dashes', 'quick': 100, 'thorough': 300, 'twin': 'dashes_reach',
     'bound': '<= 2 keys, FREE strings of length <= 3 and <= 2, optionally a '
              'complex (sequence) key that must be left alone, a key tagged '
              'int/timestamp/float, both directions'},
]
