"""C09 -- plain scalars are typed by YAML 1.2 rules for booleans and floats.

E2 (unbounded in the length of the string): the implicit-resolver table of a
real yatiml Loader *instance* (after __patch_floats/__patch_bools) and
PyYAML's Resolver.resolve are encoded as z3 regex/ITE terms on every run; each
clause of the property is an unsat query over a string variable.

E1 (bounded, end to end): every string of length <= 4 (quick 3) over the
number alphabet and every case variant of the boolean words is pushed through
the public load function and compared with an independent statement of the
YAML 1.2 rules.
"""
import datetime
import json
import math
import os
import re
import sys
import enum
from collections import UserString
from typing import Any, Dict, List, Union

import yaml

import yatiml
from vlib.common import (P, T_BOOL, T_FLOAT, T_INT, T_NULL, T_STR, T_TS,
                         SYMBOLIC, install_stubs, note, pick, slice_no)

E2 = True
ENCODED = [
    'yatiml.loader.Loader.__init__/_Loader__patch_floats/_Loader__patch_bools '
    '(run for real; the resulting per-instance yaml_implicit_resolvers table '
    'is what is encoded)',
    'yaml.resolver.BaseResolver.resolve (kind=ScalarNode, implicit=(True, '
    'False)): encoded as first-character bucket + None bucket + first match '
    '+ default str',
    'yaml.constructor.SafeConstructor.construct_yaml_float/bool/int/null '
    '(E1, executed for real)',
    'yatiml.loader.LoadFunction.__call__ (E1 end-to-end)']
ASSUMPTIONS = [
    'domain of the string variable: no newline character (a plain scalar '
    'cannot end in one; Python `$` would also match before a final newline)',
    'trusted base of E2: the re->z3 translator vlib/smtre.py, validated on '
    'every run against re.match on a corpus and on every witness, and the '
    'encoding of Resolver.resolve, validated against the real '
    'Loader.resolve on the same corpus',
    'a sign on .nan (+.nan/-.nan) is accepted as a float: the property says '
    '"the .inf/.nan spellings" and does not pin it',
    'E1 end-to-end strings are those the YAML scanner reads as one plain '
    'scalar (others are skipped); float(str) itself is CPython',
]

# ---- independent statement of the rule (Python re, used at replay and E1)
_D = '[0-9]'
F12_RE = re.compile(
    r'[-+]?(?:\.[0-9]+|[0-9]+(?:\.[0-9]*)?)(?:[eE][-+]?[0-9]+)?\Z')
INTLIKE_RE = re.compile(r'[-+]?[0-9]+\Z')
INF_RE = re.compile(r'[-+]?\.(?:inf|Inf|INF)\Z')
NAN_RE = re.compile(r'[-+]?\.(?:nan|NaN|NAN)\Z')
BOOLS = {'true': True, 'True': True, 'TRUE': True,
         'false': False, 'False': False, 'FALSE': False}


def spec_kind(s: str):
    """('bool', v) | ('float', v) | None  by the property's YAML 1.2 rule."""
    if s in BOOLS:
        return ('bool', BOOLS[s])
    if INF_RE.match(s):
        return ('float', -math.inf if s[0] == '-' else math.inf)
    if NAN_RE.match(s):
        return ('float', math.nan)
    if F12_RE.match(s) and not INTLIKE_RE.match(s):
        return ('float', float(s))
    return None


_LOAD = yatiml.load_function()
# typed positions: what is constructed where a scalar type is demanded must
# agree with what the scalar resolves to
_TYPED = [(bool, yatiml.load_function(bool)),
          (float, yatiml.load_function(float)),
          (int, yatiml.load_function(int)),
          (str, yatiml.load_function(str))]
_LIST_FLOAT = yatiml.load_function(List[float])


# ---- positions where classes meet scalars: the type a scalar resolves to
# decides which candidate takes it, and hooks that read it see what is built
class Expr(UserString):
    pass


class Mode(enum.Enum):
    true = 1
    false = 2
    auto = 3
    TRUE = 4
    n1e5 = 5


class Setting:
    def __init__(self, mode: Mode, gain: int) -> None:
        self.mode, self.gain = mode, gain


class Base9:
    def __init__(self, name: str) -> None:
        self.name = name


class Tuned(Base9):
    def __init__(self, name: str, mode: Mode, gain: int) -> None:
        super().__init__(name)
        self.mode, self.gain = mode, gain


class Switched(Base9):
    def __init__(self, name: str, mode: bool) -> None:
        super().__init__(name)
        self.mode = mode


class On:
    def __init__(self, enabled: bool) -> None:
        self.enabled = enabled

    @classmethod
    def _yatiml_recognize(cls, node: yatiml.UnknownNode) -> None:
        node.require_attribute_value('enabled', True)


class Off:
    def __init__(self, enabled: bool) -> None:
        self.enabled = enabled

    @classmethod
    def _yatiml_recognize(cls, node: yatiml.UnknownNode) -> None:
        node.require_attribute_value('enabled', False)


SEEN = []


class Probe:
    """savorize reads the scalar with get_value() before it is built."""
    def __init__(self, v: Any) -> None:
        self.v = v

    @classmethod
    def _yatiml_savorize(cls, node: yatiml.Node) -> None:
        if node.has_attribute('v') and node.get_attribute('v').is_scalar():
            try:
                SEEN.append(node.get_attribute('v').get_value())
            except Exception as e:      # noqa
                SEEN.append(e)


_U_FLOAT_EXPR = yatiml.load_function(Union[float, Expr], Expr)
_U_EXPR_FLOAT = yatiml.load_function(Union[Expr, float], Expr)
_EXPR = yatiml.load_function(Expr)
_LIST_UFE = yatiml.load_function(List[Union[float, Expr]], Expr)
_SET_OR_DICT = yatiml.load_function(Union[Setting, Dict[str, bool]],
                                    Setting, Mode)
_SIBLINGS = yatiml.load_function(Base9, Tuned, Switched, Mode)
_ON_OFF = yatiml.load_function(Union[On, Off], On, Off)
_PROBE = yatiml.load_function(Probe)


def _value_text_ok(doc: str, text: str) -> bool:
    """`doc` is a block mapping whose LAST value is the plain scalar text."""
    try:
        root = yaml.compose(doc, Loader=yaml.SafeLoader)
    except yaml.YAMLError:
        return False
    if not isinstance(root, yaml.MappingNode) or not root.value:
        return False
    if not all(isinstance(k, yaml.ScalarNode) and isinstance(
            v, yaml.ScalarNode) for k, v in root.value):
        return False
    v = root.value[-1][1]
    return v.value == text and v.style is None and len(root.value) <= 2


def _class_positions_agree(text: str, got) -> bool:
    bad = []

    def expect(name, fn, want):
        """want: ('value', predicate) or 'reject'."""
        try:
            v = fn()
        except yatiml.RecognitionError:
            if want != 'reject':
                bad.append((name, 'RecognitionError'))
            return
        except yaml.YAMLError:
            return
        if want == 'reject' or not want[1](v):
            bad.append((name, repr(v)))

    # a string-like class next to float: what resolves to float is a float
    if type(got) is float:
        w = ('value', lambda v: type(v) is float and _same_scalar(v, got))
        for name, fn in (('Union[float, Expr]', _U_FLOAT_EXPR),
                         ('Union[Expr, float]', _U_EXPR_FLOAT)):
            expect(name, lambda fn=fn: fn(text), w)
        expect('List[Union[float, Expr]]', lambda: _LIST_UFE('- ' + text)[0]
               if _single_plain_scalar(text) and yaml.safe_load(
                   '- ' + text) is not None else got, w)
        expect('Expr', lambda: _EXPR(text), 'reject')
    elif type(got) is str:
        w = ('value', lambda v: type(v) is Expr and str(v) == got)
        expect('Union[float, Expr]', lambda: _U_FLOAT_EXPR(text), w)
        expect('Expr', lambda: _EXPR(text), w)
    else:
        expect('Union[float, Expr]', lambda: _U_FLOAT_EXPR(text), 'reject')
        expect('Expr', lambda: _EXPR(text), 'reject')
    # an enum in one candidate, bool in the other, at the same key
    doc = 'mode: ' + text
    if _value_text_ok(doc, text):
        isb = type(got) is bool
        expect('Union[Setting, Dict[str, bool]]', lambda: _SET_OR_DICT(doc),
               ('value', lambda v: type(v) is dict and v == {'mode': got}
                and type(v['mode']) is bool) if isb else 'reject')
        doc2 = 'name: n\nmode: ' + text
        expect('Base9 <- Tuned(mode: Mode, gain) | Switched(mode: bool)',
               lambda: _SIBLINGS(doc2),
               ('value', lambda v: type(v) is Switched and v.mode is got)
               if isb else 'reject')
        # hooks that read the scalar see what is then constructed
        doc3 = 'enabled: ' + text
        expect('require_attribute_value(enabled, True/False)',
               lambda: _ON_OFF(doc3),
               ('value', lambda v: type(v) is (On if got else Off)
                and v.enabled is got) if isb else 'reject')
        if type(got) in (bool, float, int, str) or got is None:
            del SEEN[:]
            expect('get_value() in _yatiml_savorize', lambda: _PROBE(
                'v: ' + text), ('value', lambda v: len(SEEN) == 1 and type(
                    SEEN[0]) is type(v.v) and _same_scalar(SEEN[0], v.v)
                    and type(v.v) is type(got) and _same_scalar(v.v, got)))
    if bad:
        note(text=text, untyped=repr(got), class_positions_disagree=bad)
    return not bad


def _same_scalar(a, b) -> bool:
    if type(a) is not type(b):
        return False
    return (b != b) if a != a else a == b


def _typed_agree(text: str, got) -> bool:
    """load_function(T)(text) returns exactly what the untyped load returns
    when that is a T, and raises RecognitionError otherwise."""
    for t, load in _TYPED:
        try:
            v = load(text)
        except yatiml.RecognitionError:
            if type(got) is t:
                note(typed=t.__name__, text=text,
                     typed_load='RecognitionError', untyped=repr(got))
                return False
            continue
        if type(got) is not t or not _same_scalar(v, got):
            note(typed=t.__name__, text=text, typed_load=repr(v),
                 untyped=repr(got))
            return False
    try:
        v = _LIST_FLOAT('- ' + text)
        ok = type(got) is float and _same_scalar(v[0], got)
    except yatiml.RecognitionError:
        ok = type(got) is not float
    except yaml.YAMLError:
        ok = True           # '- ' + text is no longer one plain scalar
    if not ok:
        note(text=text, list_of_float='disagrees', untyped=repr(got))
    return ok and _class_positions_agree(text, got)



def _single_plain_scalar(text: str) -> bool:
    """Does the YAML scanner read `text` as one plain scalar with that value?"""
    try:
        evs = list(yaml.parse(text, Loader=yaml.SafeLoader))
    except yaml.YAMLError:
        return False
    sc = [e for e in evs if isinstance(e, yaml.ScalarEvent)]
    other = [e for e in evs if isinstance(e, (
        yaml.SequenceStartEvent, yaml.MappingStartEvent, yaml.AliasEvent))]
    return (len(sc) == 1 and not other and sc[0].value == text
            and sc[0].style is None and sc[0].tag is None
            and sc[0].anchor is None)


def plain_scalar_ok(text: str) -> bool:
    """The property for ONE concrete plain scalar, on the unstubbed public
    API (replay target of every E2 witness, and the E1 oracle)."""
    if not _single_plain_scalar(text):
        note(text=text, skipped='not a single plain scalar')
        return True
    ldr = _LOAD.loader('')
    tag = ldr.resolve(yaml.ScalarNode, text, (True, False))
    stock = yaml.SafeLoader('').resolve(yaml.ScalarNode, text, (True, False))
    want = spec_kind(text)
    try:
        got = _LOAD(text)
    except Exception as e:  # noqa
        if (want is None and tag == stock and tag in (
                T_TS, P + 'merge', P + 'value')
                and isinstance(e, (yaml.YAMLError, yatiml.RecognitionError,
                                   ValueError))):
            # timestamp/merge/value typing is PyYAML's (2001-13-45, = and <<
            # fail in the stock SafeLoader too); exception types are C08's
            note(text=text, resolves=tag, raised=type(e).__name__,
                 skipped='timestamp/merge/value typing is PyYAML\'s')
            return True
        note(text=text, resolves=tag, expected=want,
             raised='%s: %s' % (type(e).__name__, e))
        return False
    note(text=text, resolves=tag, expected=want, loaded=repr(got))
    if not _typed_agree(text, got):
        return False
    if want is not None:
        kind, v = want
        if kind == 'bool':
            return got is v and tag == T_BOOL
        if type(got) is not float or tag != T_FLOAT:
            return False
        return (got != got) if v != v else got == v
    # neither bool nor float; int/null/timestamp typing is PyYAML's
    if type(got) in (bool, float):
        return False
    if tag in (T_BOOL, T_FLOAT):
        return False
    if stock in (T_INT, T_NULL, T_TS):
        if tag != stock:
            return False
        return (type(got) is int if stock == T_INT else
                got is None if stock == T_NULL else
                isinstance(got, (datetime.date, datetime.datetime)))
    # resolve/construct agreement for everything else
    return tag not in (T_INT, T_NULL, T_TS) and type(got) is str \
        and got == text


def resolves_like(text: str) -> bool:
    """Replay target for the 'unchanged rest' queries: the yatiml loader and
    the stock SafeLoader agree on whether `text` is int/null/timestamp/
    merge/value."""
    a = _LOAD.loader('').resolve(yaml.ScalarNode, text, (True, False))
    b = yaml.SafeLoader('').resolve(yaml.ScalarNode, text, (True, False))
    rest = [P + t for t in ('int', 'null', 'timestamp', 'merge', 'value')]
    note(text=text, yatiml_resolves=a, stock_resolves=b)
    for t in rest:
        if (a == t) != (b == t):
            return False
    return True


# ---------------------------------------------------------------- E1
install_stubs(composer=False)    # concrete text per path: real scanner
_NUM = '019.eE+-_:'
_BOOLW = ['true', 'false', 'yes', 'no', 'on', 'off', 'y', 'n', 'null', '~',
          'trueish', 'truee', 'tru', 'ffalse', '.inf', '.nan', '-.inf',
          '+.nan', '.info', 'nan', 'inf', '1_000.5', '1:30.5', '1.2.3',
          '0x1F', '0o17', '1e5', '.5', '5.', '-', '+', '.', 'e5', '1e',
          '2001-12-14', '2001-13-45', '=', '<<', '-inf', '+nan', 'infinity',
          '1.\uff15', '\uff11.5', '3.\u0661\u0664', '1e\u0665', '.\u0966', '0.5']


def _numeric(c) -> bool:
    s = slice_no(-1)
    if s >= 0 and c[0] != s:
        return True
    return plain_scalar_ok(''.join([pick(_NUM, x) for x in c]))


def numeric3(c: List[int]) -> bool:
    """
    pre: 1 <= len(c) <= 3
    pre: all(0 <= x < 10 for x in c)
    post: __return__
    """
    return _numeric(c)


def numeric4(c: List[int]) -> bool:
    """
    pre: 1 <= len(c) <= 4
    pre: all(0 <= x < 10 for x in c)
    post: __return__
    """
    return _numeric(c)


def numeric5(c: List[int]) -> bool:
    """
    pre: len(c) == 5
    pre: all(0 <= x < 10 for x in c)
    post: __return__
    """
    s = slice_no(-1)
    if s >= 0 and (c[0] != s // 10 or c[1] != s % 10):
        return True
    return plain_scalar_ok(''.join([pick(_NUM, x) for x in c]))


def _cased(w: str, mask: int) -> str:
    return ''.join(ch.upper() if (mask >> i) & 1 else ch
                   for i, ch in enumerate(w))


def _words(w, mask) -> bool:
    s = slice_no(-1)
    if s >= 0 and w % 8 != s:
        return True
    return plain_scalar_ok(_cased(pick(_BOOLW, w), mask))


def words_cased(w: int, mask: int) -> bool:
    """
    pre: 0 <= w < 47
    pre: 0 <= mask < 16
    post: __return__
    """
    return _words(w, mask)


def words_reach(w: int, mask: int) -> bool:
    """
    pre: 0 <= w < 47
    pre: 0 <= mask < 16
    post: __return__
    """
    ok = _words(w, mask)
    return not (ok and w == 0 and mask == 15)       # 'TRUE' loads as True


CONDITIONS = [
    {'fn': 'words_cased', 'slices': list(range(8)), 'quick': 100,
     'thorough': 200,
     'bound': 'end to end: 47 words (boolean/null/float/int look-alikes, '
              'inf/nan without a point, non-ASCII decimal digits) x '
              'all 16 capitalisation masks of their first 4 characters'},
    {'fn': 'words_reach', 'slices': [0], 'quick': 60, 'thorough': 60,
     'expect': 'REFUTED', 'bound': 'reachability twin of words_cased'},
    {'fn': 'numeric3', 'slices': list(range(10)), 'quick': 100,
     'thorough': None,
     'bound': 'end to end: every string of length 1..3 over 019.eE+-_:'},
    {'fn': 'numeric4', 'slices': list(range(10)), 'quick': None,
     'thorough': 900,
     'bound': 'end to end: every string of length 1..4 over 019.eE+-_:'},
    {'fn': 'numeric5', 'slices': list(range(100)), 'quick': None,
     'thorough': 900,
     'bound': 'end to end: every string of length 5 over 019.eE+-_:'},
]


# ---------------------------------------------------------------- E2
CORPUS = [
    '', ' ', '~', 'null', 'Null', 'NULL', 'nul', 'true', 'True', 'TRUE',
    'tRue', 'false', 'False', 'FALSE', 'yes', 'Yes', 'no', 'on', 'off', 'y',
    'n', 'Y', 'N', 'trueish', 'FALSEB', 'truetrue', '0', '1', '-1', '+1',
    '12', '017', '0o17', '0x1F', '0b101', '1_000', '1__0', '1_', '1:30',
    '190:20:30', '1:30.5', '1.', '1.5', '.5', '-.5', '+.5', '1e5', '1E5',
    '1e+5', '1e-5', '1.e5', '1.5e5', '1.5E+5', '.5e5', '1_000.5', '1.2.3',
    '8.d', '1e', 'e5', '.', '..', '-', '+', '.e5', '.inf', '.Inf', '.INF',
    '-.inf', '+.inf', '.iNf', '.info', '.nan', '.NaN', '.NAN', '-.nan',
    '.nana', 'inf', 'nan', '6.8523015e+5', '685.230_15e+03',
    '685_230.15', '2001-12-14', '2001-12-14t21:59:43.10-05:00',
    '2001-12-14 21:59:43.10 -5', '2001-12-15 2:59:43.10', '2001-13-45',
    '2002-12-14x', '<<', '<', '=', '==', 'abc', '1a', 'a1', '-a', '0.0',
    '00.5', '1.0e+17', '0e0', '.0E0', '1e5 ', '- 1', '٣', '１.５',
    '１', 'trυe', '\t1', '1\t']


def e2_main(tier: str, out: str) -> int:
    import z3
    from vlib import smtre
    from vlib.smtre import ResolverModel, Session, py_resolve

    ses = Session(timeout_ms=120000 if tier == 'thorough' else 60000)
    s = ses.s
    ldr = _LOAD.loader('')
    table = ldr.yaml_implicit_resolvers
    stock_table = yaml.SafeLoader.yaml_implicit_resolvers
    result = {'queries': [], 'validation': {}, 'violations': [],
              'harness_errors': []}
    try:
        Rl = ResolverModel(table, s)
        Rs = ResolverModel(stock_table, s)
    except smtre.Untranslatable as e:
        # a pattern outside the translator's fragment: E2 cannot decide; the
        # bounded E1 conditions still run
        result['untranslatable'] = str(e)
        json.dump(result, open(out, 'w'), indent=1)
        return 0

    # ---- translator / encoding validation on the corpus
    nval = 0
    for m, tbl, real in ((Rl, table, ldr), (Rs, stock_table,
                                            yaml.SafeLoader(''))):
        for key, (rx, lang) in m.patterns.items():
            for w in CORPUS:
                if '\n' in w:
                    continue
                a = rx.match(w) is not None
                b = z3.is_true(z3.simplify(z3.InRe(z3.StringVal(w), lang)))
                nval += 1
                if a != b:
                    result['harness_errors'].append(
                        'translator disagrees with re.match on %r for %s'
                        % (w, rx.pattern[:60]))
        for w in CORPUS:
            a = real.resolve(yaml.ScalarNode, w, (True, False))
            b = py_resolve(tbl, w)
            c = z3.simplify(z3.substitute(m.term, (s, z3.StringVal(w))))
            nval += 1
            if a != b or m.tags[c.as_long()] != a:
                result['harness_errors'].append(
                    'resolve encoding disagrees on %r: real %s model %s' % (
                        w, a, m.tags[c.as_long()]))
    result['validation'] = {'comparisons': nval,
                            'patterns': len(Rl.patterns) + len(Rs.patterns)}

    # ---- the specification as z3 regexes (written from the property text)
    D = smtre.rng(48, 57)
    opt, cat, lit = z3.Option, smtre.concat, smtre.lit
    sign = opt(smtre.words('-+'))
    exp = cat([smtre.words('eE'), sign, z3.Plus(D)])
    num12 = cat([sign, z3.Union(cat([lit('.'), z3.Plus(D)]),
                                cat([z3.Plus(D),
                                     opt(cat([lit('.'), z3.Star(D)]))])),
                 opt(exp)])
    intlike = cat([sign, z3.Plus(D)])
    spec_float = z3.Union(
        z3.Intersect(num12, z3.Complement(intlike)),
        cat([sign, smtre.words(['.inf', '.Inf', '.INF'])]),
        cat([sign, smtre.words(['.nan', '.NaN', '.NAN'])]))
    spec_float_strict = z3.Union(
        z3.Intersect(num12, z3.Complement(intlike)),
        cat([sign, smtre.words(['.inf', '.Inf', '.INF'])]),
        smtre.words(['.nan', '.NaN', '.NAN']))
    spec_bool = smtre.words(list(BOOLS))
    # what PyYAML's scalar constructors accept without raising
    accept_float = z3.Union(
        cat([sign, smtre.words(['.inf', '.Inf', '.INF', '.nan', '.NaN',
                                '.NAN'])]),
        num12)
    accept_bool_lower = ['yes', 'no', 'true', 'false', 'on', 'off']

    F, B = T_FLOAT, T_BOOL
    inre = lambda r: z3.InRe(s, r)   # noqa: E731
    Q = []
    Q.append(('float-sound: resolves to float but is not a YAML 1.2 float',
              'plain_scalar_ok', [Rl.is_(F), z3.Not(inre(spec_float))]))
    Q.append(('float-complete: a YAML 1.2 float that does not resolve to '
              'float', 'plain_scalar_ok',
              [z3.Not(Rl.is_(F)), inre(spec_float_strict)]))
    Q.append(('bool-sound: resolves to bool but is not one of the six '
              'spellings', 'plain_scalar_ok',
              [Rl.is_(B), z3.Not(inre(spec_bool))]))
    Q.append(('bool-complete: one of the six spellings does not resolve to '
              'bool', 'plain_scalar_ok',
              [z3.Not(Rl.is_(B)), inre(spec_bool)]))
    Q.append(('float resolve/construct agreement: resolves to float but '
              'construct_yaml_float would raise', 'plain_scalar_ok',
              [Rl.is_(F), z3.Not(inre(accept_float))]))
    Q.append(('bool resolve/construct agreement: resolves to bool but is not '
              'in PyYAML\'s bool_values', 'plain_scalar_ok',
              [Rl.is_(B), z3.Not(inre(smtre.words(
                  [w2 for w in accept_bool_lower
                   for w2 in {w, w.capitalize(), w.upper()}])))]))
    for t in ('int', 'null', 'timestamp', 'merge', 'value'):
        Q.append(('unchanged rest: %s typing differs from PyYAML\'s' % t,
                  'resolves_like',
                  [z3.Xor(Rl.is_(P + t), Rs.is_(P + t))]))
    # named regression queries (implied by soundness; cheap, and they give a
    # readable evidence trail)
    for w in ['yes', 'no', 'on', 'off', 'y', 'n', 'Yes', 'ON', '1_000.5',
              '1:30.5', '1.2.3', 'trueish', '8.d', 'FALSEB']:
        Q.append(('named: %r is neither bool nor float' % w,
                  'plain_scalar_ok',
                  [s == z3.StringVal(w), z3.Or(Rl.is_(F), Rl.is_(B))]))
    # reachability / non-vacuity of the encoding: these must be sat
    R = [('reach: some string resolves to float', [Rl.is_(F)]),
         ('reach: some string resolves to bool', [Rl.is_(B)]),
         ('reach: some float has an exponent and no dot',
          [Rl.is_(F), z3.Not(z3.Contains(s, z3.StringVal('.'))),
           z3.Length(s) > 3]),
         ('reach: some string resolves to int', [Rl.is_(T_INT)]),
         ('reach: some string resolves to timestamp', [Rl.is_(T_TS)])]

    import importlib
    me = importlib.import_module('harness.c09_resolver')
    for name, target, cons in Q:
        rec = ses.query(name, *cons)
        so = rec.pop('_solver')
        if tier == 'thorough' and not name.startswith('named:'):
            rec['smt2'] = _smt2(so)
        if rec['result'] == 'sat':
            ok = getattr(me, target)(rec['witness'])
            rec['replay_target'] = target
            rec['replay_holds'] = bool(ok)
            if not ok:
                result['violations'].append({
                    'query': name, 'function': target,
                    'args': {'text': rec['witness']}})
            else:
                result['harness_errors'].append(
                    'witness %r of "%s" does not violate the property on the '
                    'real API: encoding or spec regex is wrong' % (
                        rec['witness'], name))
        elif rec['result'] != 'unsat':
            rec['inconclusive'] = True
        result['queries'].append(rec)
    for name, cons in R:
        rec = ses.query(name, *cons, expect='sat')
        so = rec.pop('_solver')
        if rec['result'] == 'sat':
            w = rec['witness']
            real = ldr.resolve(yaml.ScalarNode, w, (True, False))
            rec['real_resolve'] = real
            # validate the witness against the real resolver
            c = z3.simplify(z3.substitute(Rl.term, (s, z3.StringVal(w))))
            if Rl.tags[c.as_long()] != real:
                result['harness_errors'].append(
                    'reach witness %r: model says %s, real resolver %s' % (
                        w, Rl.tags[c.as_long()], real))
        else:
            result['harness_errors'].append(
                'vacuity: "%s" is %s' % (name, rec['result']))
        result['queries'].append(rec)

    if tier == 'thorough':
        result['cvc5'] = _cvc5_crosscheck(result['queries'])
        for d in result['cvc5'].get('disagreements', []):
            result['harness_errors'].append('z3 and cvc5 disagree on ' + d)
    for q in result['queries']:
        q.pop('smt2', None)
    json.dump(result, open(out, 'w'), indent=1)
    return 0


def _smt2(solver) -> str:
    return '(set-logic ALL)\n' + solver.to_smt2()


def _cvc5_crosscheck(queries):
    import shutil
    import subprocess
    import tempfile
    exe = shutil.which('cvc5')
    res = {'binary': exe, 'agree': 0, 'timeouts': 0, 'errors': 0,
           'disagreements': []}
    if not exe:
        return res
    work = os.path.join(os.path.dirname(os.path.dirname(
        os.path.abspath(__file__))), 'work', 'C09_cvc5')
    os.makedirs(work, exist_ok=True)
    for i, q in enumerate(queries):
        if not q.get('smt2'):
            continue
        path = os.path.join(work, 'q%d.smt2' % i)
        open(path, 'w').write(q['smt2'])
        try:
            p = subprocess.run([exe, '--strings-exp', '--tlimit=10000', path],
                               capture_output=True, text=True, timeout=15)
            out = p.stdout.strip().splitlines()
            ans = out[0] if out else ''
        except subprocess.TimeoutExpired:
            ans = 'timeout'
        q['cvc5'] = ans
        if ans in ('sat', 'unsat'):
            if ans == q['result']:
                res['agree'] += 1
            elif q['result'] in ('sat', 'unsat'):
                res['disagreements'].append(q['name'])
        elif '(error' in ans or 'error' in ans.lower():
            res['errors'] += 1
        else:
            res['timeouts'] += 1
    import shutil as sh
    sh.rmtree(work, ignore_errors=True)
    return res


if __name__ == '__main__':
    if len(sys.argv) >= 4 and sys.argv[1] == '--e2':
        sys.exit(e2_main(sys.argv[2], sys.argv[3]))
