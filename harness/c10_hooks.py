"""C10 -- seasoning and recognition hooks run once, own class only, bases
first.

The class hierarchy is built inside the harness with the hooks present or
absent according to solver booleans, so the solver enumerates the subsets:
A <- B <- C (C also inherits an unregistered mix-in M that defines every
hook), a sibling S of B, a holder class.  Every hook records (kind, defining
class, cls argument); every __init__ records itself.
"""
from typing import Any, Dict, List, Optional, Union

import yaml

import yatiml
from vlib.common import (SYMBOLIC, T_INT, T_STR, install_stubs, load_tree,
                         mapping, note, pick, scalar, seq, slice_no)

install_stubs()

ENCODED = [
    'yatiml.loader.Loader._Loader__savorize, _Loader__process_node',
    'yatiml.recognizer.Recognizer._Recognizer__recognize_user_class/'
    '__recognize_user_classes',
    'yatiml.representers.Representer.__call__, _Representer__sweeten',
    'yatiml.loader.load_function, yatiml.dumper.dumps_function (once per '
    'class family, at import)']
ASSUMPTIONS = [
    'S1-S3 stubs (load side); dumping runs the real serializer and emitter',
    'hierarchy: chain A <- B <- C of registered classes, a registered '
    'DIAMOND class X(B, S) that reaches A along two paths (for X the order '
    'between its parents\' hooks is not pinned: each once, A first, X last), '
    'C additionally inherits an UNREGISTERED mix-in that defines all three '
    'hooks (and whose __name__ equals that of the registered class S in the '
    'families where S defines the hook), a registered sibling S(A), a holder class; the subset of classes '
    'defining _yatiml_savorize / _yatiml_sweeten / _yatiml_recognize in '
    'their own body is chosen by the solver (2^4 each, one hook kind varied '
    'per condition, the others absent)',
    'positions: top level, list item, dict value, attribute of another '
    'class, Union member; the document denotes A, B, C or S',
    'chains interrupted by an unregistered class (where the texts do not pin '
    'whether hooks above the break run) are outside the bound',
    'classes written as scalars (UserString / Enum hierarchies) are '
    'covered for _yatiml_savorize and _yatiml_sweeten by the scalar_* '
    'conditions; _yatiml_recognize of such classes is outside the bound',
]

TRACE = []


def _mk_hook(kind, owner_name):
    def hook(cls, node):
        TRACE.append((kind, owner_name, cls.__name__))
        if kind == 'recognize':
            # the same rule automatic recognition would apply
            own = {'A': 'a', 'B': 'ab', 'C': 'abc', 'S': 'as',
                   'M': 'a', 'X': 'absx'}[owner_name]
            for k in own:
                node.require_attribute(k, int)
            # ... and, like it, a mapping with other keys is not this class
            # (it may well be a derived one: that is not this hook's call)
            for key_node, _ in node.yaml_node.value:
                if key_node.value not in own:
                    raise yatiml.RecognitionError(
                        'not a(n) %s: key %s' % (owner_name, key_node.value))
        if kind == 'savorize' and RAISE[0] == owner_name:
            if BARE[0]:
                raise yatiml.SeasoningError     # no message at all
            raise yatiml.SeasoningError('requested')
    hook.__name__ = '_yatiml_' + kind
    return classmethod(hook)


RAISE = [None]
BARE = [False]


def make_classes(kind, fa, fb, fc, fs, fm):
    """kind: which hook is varied; f*: class defines it in its own body."""
    def body(name, flag, init):
        d = {'__init__': init}
        if flag:
            d['_yatiml_' + kind] = _mk_hook(kind, name)
        return d

    def init_a(self, a: int) -> None:
        TRACE.append(('init', type(self).__name__, 'A'))
        self.a = a

    def init_b(self, a: int, b: int) -> None:
        TRACE.append(('init', type(self).__name__, 'B'))
        self.a, self.b = a, b

    def init_c(self, a: int, b: int, c: int) -> None:
        TRACE.append(('init', type(self).__name__, 'C'))
        self.a, self.b, self.c = a, b, c

    def init_s(self, a: int, s: int) -> None:
        TRACE.append(('init', type(self).__name__, 'S'))
        self.a, self.s = a, s

    def init_x(self, a: int, b: int, s: int, x: int) -> None:
        TRACE.append(('init', type(self).__name__, 'X'))
        self.a, self.b, self.s, self.x = a, b, s, x

    A = type('A', (), body('A', fa, init_a))
    B = type('B', (A,), body('B', fb, init_b))
    md = {}
    if fm:
        # the unregistered mix-in defines ALL hooks
        for k in ('savorize', 'sweeten', 'recognize'):
            md['_yatiml_' + k] = _mk_hook(k, 'M')
    # when the sibling S defines the hook, the unregistered mix-in is NAMED
    # like that registered class (class S(legacy.S) is ordinary Python)
    M = type('S' if fs else 'M', (), md)
    C = type('C', (B, M), body('C', fc, init_c))
    S = type('S', (A,), body('S', fs, init_s))
    # a DIAMOND: X reaches A along two paths; it defines the hook iff C does
    X = type('X', (B, S), body('X', fc, init_x))

    def init_h(self, x: A, y: Optional[int] = None) -> None:
        TRACE.append(('init', 'Holder', 'Holder'))
        self.x, self.y = x, y
    H = type('Holder', (), {'__init__': init_h})
    return A, B, C, S, M, H, X


_FAMILIES = {}


def family(kind, fa, fb, fc, fs, fm):
    """Class families are created once per (hook kind, subset), outside the
    symbolic run; the solver picks one by its concrete index."""
    mask = 0
    for i, f in enumerate((fa, fb, fc, fs, fm)):
        if f:
            mask += 1 << i
    for m in range(32):
        if mask == m:
            key = (kind, m)
            if key not in _FAMILIES:
                bits = [bool(m >> i & 1) for i in range(5)]
                _FAMILIES[key] = {'classes': make_classes(kind, *bits)}
            return _FAMILIES[key]
    raise AssertionError


for _k in ('savorize', 'recognize', 'sweeten'):
    for _m in range(32):
        _b = [bool(_m >> i & 1) for i in range(5)]
        _fam = {'classes': make_classes(_k, *_b)}
        _A, _B, _C, _S, _M, _H, _X = _fam['classes']
        if _k == 'sweeten':
            _fam['dumps'] = yatiml.dumps_function(_A, _B, _C, _S, _H, _X)
        else:
            _fam['load'] = []
            for _pos in range(5):
                _dt = [_A, List[_A], Dict[str, _A], _H, Union[_A, int]][_pos]
                _regs = [_A, _B, _C, _S, _X] + ([_H] if _pos == 3 else [])
                _fam['load'].append(yatiml.load_function(
                    _dt, *[c for c in _regs if c is not _dt]))
        _FAMILIES[(_k, _m)] = _fam


def _doc_for(target, tagged=False):
    ents = [(scalar(T_STR, 'a'), scalar(T_INT, '1'))]
    if target in (1, 2):
        ents.append((scalar(T_STR, 'b'), scalar(T_INT, '2')))
    if target == 2:
        ents.append((scalar(T_STR, 'c'), scalar(T_INT, '3')))
    if target == 3:
        ents.append((scalar(T_STR, 's'), scalar(T_INT, '4')))
    if target == 4:
        ents += [(scalar(T_STR, 'b'), scalar(T_INT, '2')),
                 (scalar(T_STR, 's'), scalar(T_INT, '4')),
                 (scalar(T_STR, 'x'), scalar(T_INT, '5'))]
    if tagged:
        # the document author names the (correct) class explicitly
        return mapping(ents, tag='!' + pick(['A', 'B', 'C', 'S', 'X'],
                                            target))
    return mapping(ents)


def _place(node, pos):
    if pos == 1:
        return seq([node])
    if pos == 2:
        return mapping([(scalar(T_STR, 'k'), node)])
    if pos == 3:
        return mapping([(scalar(T_STR, 'x'), node)])
    return node


def _expected_hooks(kind, target, fa, fb, fc, fs):
    chain = pick([['A'], ['A', 'B'], ['A', 'B', 'C'], ['A', 'S'],
                  ['A', 'B', 'S', 'X']], target)
    has = {'A': fa, 'B': fb, 'C': fc, 'S': fs, 'X': fc}
    return [(kind, n, n) for n in chain if has[n]]


def _same_hooks(hooks, want, target):
    """Each expected hook exactly once, ancestors before descendants.  For
    the diamond class the relative order of its two parents is not pinned by
    the property."""
    if target != 4:
        return hooks == want
    if sorted(hooks) != sorted(want):
        return False
    names = [h[1] for h in hooks]
    return (('A' not in names or names[0] == 'A')
            and ('X' not in names or names[-1] == 'X'))


def _load_hooks(kind, fa, fb, fc, fs, fm, target, pos, raise_in,
                tagged=False):
    fam = family(kind, fa, fb, fc, fs, fm)
    load = pick(fam['load'], pos)
    del TRACE[:]
    names = ['A', 'B', 'C', 'S', 'X']
    RAISE[0] = pick([None, 'A', 'B', 'C', 'S', 'A', 'B', 'C', 'S'], raise_in) \
        if kind == 'savorize' else None
    BARE[0] = raise_in >= 5
    tree = _place(_doc_for(target, tagged), pos)
    try:
        v = load_tree(load, tree)
        outcome = 'ok'
    except yatiml.RecognitionError:
        outcome = 'RecognitionError'
    except Exception as e:   # noqa
        outcome = type(e).__name__
    trace = list(TRACE)
    want = _expected_hooks(kind, target, fa, fb, fc, fs)
    tname = pick(names, target)
    if not SYMBOLIC:
        note(hook=kind, defined_in=[n for n, f in zip(
            names + ['M'], [fa, fb, fc, fs, fm]) if f], document_denotes=tname,
            position=pos, raise_in=RAISE[0], outcome=outcome, trace=trace,
            expected_hooks=want)
    hooks = [e for e in trace if e[0] == kind]
    if kind == 'recognize':
        # consulted only for the class that defines it, with that class as
        # cls; never the unregistered mix-in's
        return all(e[1] == e[2] and e[1] != 'M' for e in hooks) and \
            outcome == 'ok'
    raising = RAISE[0] is not None and any(
        w[1] == RAISE[0] for w in want)
    if raising:
        # hooks up to and including the raising one, then RecognitionError
        cut = [w[1] for w in want].index(RAISE[0]) + 1
        if target == 4:
            ok = (bool(hooks) and hooks[-1][1] == RAISE[0]
                  and len(set(hooks)) == len(hooks)
                  and all(h in want for h in hooks)
                  and ('A' not in [w[1] for w in want]
                       or hooks[0][1] == 'A'))
        else:
            ok = hooks == want[:cut]
        return ok and outcome == 'RecognitionError' and \
            not any(e[0] == 'init' for e in trace)
    if outcome != 'ok':
        return False
    if not _same_hooks(hooks, want, target):
        return False
    # all hooks of the object run before its constructor
    first_init = min([i for i, e in enumerate(trace) if e[0] == 'init'],
                     default=len(trace))
    last_hook = max([i for i, e in enumerate(trace) if e[0] == kind],
                    default=-1)
    inits = [e for e in trace if e[0] == 'init' and e[1] != 'Holder']
    return last_hook < first_init and bool(inits) and inits[0][1] == tname


def savorize(fa: bool, fb: bool, fc: bool, fs: bool, fm: bool, target: int,
             pos: int, raise_in: int, tagged: bool) -> bool:
    """
    pre: 0 <= target < 5 and 0 <= pos < 5 and 0 <= raise_in < 9
    post: __return__
    """
    s = slice_no(-1)
    if s >= 0 and pos != s:
        return True
    if tagged and raise_in != 0:
        return True
    return _load_hooks('savorize', fa, fb, fc, fs, fm, target, pos, raise_in,
                       tagged)


def recognize(fa: bool, fb: bool, fc: bool, fs: bool, fm: bool, target: int,
              pos: int, tagged: bool) -> bool:
    """
    pre: 0 <= target < 5 and 0 <= pos < 5
    post: __return__
    """
    return _load_hooks('recognize', fa, fb, fc, fs, fm, target, pos, 0,
                       tagged)


def _sweeten(fa, fb, fc, fs, fm, target, pos):
    fam = family('sweeten', fa, fb, fc, fs, fm)
    A, B, C, S, M, H, X = fam['classes']
    dumps = fam['dumps']
    obj = pick([lambda: A(1), lambda: B(1, 2), lambda: C(1, 2, 3),
                lambda: S(1, 4), lambda: X(1, 2, 4, 5)], target)()
    val = pick([lambda: obj, lambda: [obj], lambda: {'k': obj},
                lambda: H(obj), lambda: [obj, 5]], pos)()
    del TRACE[:]
    try:
        text = dumps(val)
    except Exception as e:   # noqa
        if not SYMBOLIC:
            note(raised='%s: %s' % (type(e).__name__, e))
        return False
    hooks = [e for e in TRACE if e[0] == 'sweeten']
    want = _expected_hooks('sweeten', target, fa, fb, fc, fs)
    if not SYMBOLIC:
        note(hook='sweeten', object=['A', 'B', 'C', 'S', 'X'][target],
             position=pos, trace=hooks, expected=want, text=text)
    return _same_hooks(hooks, want, target)


def sweeten(fa: bool, fb: bool, fc: bool, fs: bool, fm: bool, target: int,
            pos: int) -> bool:
    """
    pre: 0 <= target < 5 and 0 <= pos < 5
    post: __return__
    """
    return _sweeten(fa, fb, fc, fs, fm, target, pos)


def savorize_reach(fa: bool, fb: bool, fc: bool, fs: bool, fm: bool,
                   target: int, pos: int, raise_in: int) -> bool:
    """
    pre: 0 <= target < 5 and 0 <= pos < 5 and 0 <= raise_in < 5
    post: __return__
    """
    if target != 2 or pos != 3 or raise_in != 0:
        return True
    ok = _load_hooks('savorize', fa, fb, fc, fs, fm, target, pos, raise_in)
    return not (ok and fa and fb and fc)



# ------------------------------------------- string-like and enum classes
# The same rule for classes that are written as a scalar: a UserString
# hierarchy A <- B <- C(+ unregistered mix-in M), sibling S(A); an Enum
# hierarchy of member-less bases A <- B with C(M, B) and S(A) carrying the
# members.  (docs, "Customising recognition": hooks are used only for the
# class on which they are defined; "the same goes for _yatiml_savorize() and
# _yatiml_sweeten()".)
import enum                                     # noqa: E402
from collections import UserString              # noqa: E402


def _mk_scalar_hook(kind, owner_name):
    def hook(cls, node):
        TRACE.append((kind, owner_name, cls.__name__))
    hook.__name__ = '_yatiml_' + kind
    return classmethod(hook)


def make_scalar_classes(flavour, kind, fa, fb, fc, fs, fm):
    if flavour == 'str':
        class A(UserString):
            pass

        class B(A):
            pass

        class M:
            pass

        class C(B, M):
            pass

        class S(A):
            pass
    else:
        class A(enum.Enum):
            pass

        class B(A):
            pass

        class M:
            pass

        class C(M, B):
            c1 = 1
            c2 = 2

        class S(A):
            s1 = 1
    for cls, flag in ((A, fa), (B, fb), (C, fc), (S, fs)):
        if flag:
            setattr(cls, '_yatiml_' + kind,
                    _mk_scalar_hook(kind, cls.__name__))
    if fm:
        for k in ('savorize', 'sweeten', 'recognize'):
            setattr(M, '_yatiml_' + k, _mk_scalar_hook(k, 'M'))
    return A, B, C, S, M


_SCALAR_FAMILIES = {}
for _fl in ('str', 'enum'):
    for _k in ('savorize', 'sweeten'):
        for _m in range(32):
            _b = [bool(_m >> i & 1) for i in range(5)]
            _cl = make_scalar_classes(_fl, _k, *_b)
            _A, _B, _C, _S, _M = _cl
            _fam = {'classes': _cl}
            if _k == 'sweeten':
                _fam['dumps'] = yatiml.dumps_function(_A, _B, _C, _S)
            else:
                # every class of such a family accepts every string (enum
                # recognition does not look at the member names either), so
                # the document type names the leaf class
                _fam['load'] = [[
                    yatiml.load_function(_dt, *[c for c in (_A, _B, _C, _S)
                                                if c is not _dt])
                    for _dt in (_L, List[_L], Dict[str, _L],
                                Union[_L, int])] for _L in (_C, _S)]
            _SCALAR_FAMILIES[(_fl, _k, _m)] = _fam


def _scalar_family(flavour, kind, fa, fb, fc, fs, fm):
    mask = 0
    for i, f in enumerate((fa, fb, fc, fs, fm)):
        if f:
            mask += 1 << i
    for fl in ('str', 'enum'):
        for m in range(32):
            if mask == m and flavour == fl:
                return _SCALAR_FAMILIES[(fl, kind, m)]
    raise AssertionError


def _scalar_expected(kind, target, fa, fb, fc, fs):
    chain = pick([['A'], ['A', 'B'], ['A', 'B', 'C'], ['A', 'S']], target)
    has = {'A': fa, 'B': fb, 'C': fc, 'S': fs}
    return [(kind, n, n) for n in chain if has[n]]


def _scalar_sweeten(enum_flavour, fa, fb, fc, fs, fm, target, pos):
    flavour = 'enum' if enum_flavour else 'str'
    if enum_flavour and target < 2:
        return True                 # member-less enums have no values
    fam = _scalar_family(flavour, 'sweeten', fa, fb, fc, fs, fm)
    A, B, C, S, M = fam['classes']
    if enum_flavour:
        obj = C.c2 if target == 2 else S.s1
    else:
        obj = pick([A, B, C, S], target)('txt')
    val = pick([lambda: obj, lambda: [obj], lambda: {'k': obj},
                lambda: [5, obj]], pos)()
    del TRACE[:]
    try:
        text = fam['dumps'](val)
    except Exception as e:   # noqa
        if not SYMBOLIC:
            note(raised='%s: %s' % (type(e).__name__, e))
        return False
    hooks = [e for e in TRACE if e[0] == 'sweeten']
    want = _scalar_expected('sweeten', target, fa, fb, fc, fs)
    if not SYMBOLIC:
        note(hook='sweeten', flavour=flavour,
             object=['A', 'B', 'C', 'S'][target], position=pos, trace=hooks,
             expected=want, text=text)
    return hooks == want


def scalar_sweeten(enum_flavour: bool, fa: bool, fb: bool, fc: bool, fs: bool,
                   fm: bool, target: int, pos: int) -> bool:
    """
    pre: 0 <= target < 4 and 0 <= pos < 4
    post: __return__
    """
    return _scalar_sweeten(enum_flavour, fa, fb, fc, fs, fm, target, pos)


def _scalar_savorize(enum_flavour, fa, fb, fc, fs, fm, target, pos):
    flavour = 'enum' if enum_flavour else 'str'
    if target < 2:
        return True                 # only the leaf classes C and S load
    fam = _scalar_family(flavour, 'savorize', fa, fb, fc, fs, fm)
    if enum_flavour:
        node = scalar(T_STR, 'c2' if target == 2 else 's1')
    else:
        node = scalar(T_STR, 'txt')
    tree = pick([lambda: node, lambda: seq([node]),
                 lambda: mapping([(scalar(T_STR, 'k'), node)]),
                 lambda: node], pos)()
    del TRACE[:]
    try:
        v = load_tree(pick(pick(fam['load'], target - 2), pos), tree)
        outcome = 'ok'
    except Exception as e:   # noqa
        outcome = type(e).__name__
    hooks = [e for e in TRACE if e[0] == 'savorize']
    want = _scalar_expected('savorize', target, fa, fb, fc, fs)
    if not SYMBOLIC:
        note(hook='savorize', flavour=flavour,
             document_denotes=['A', 'B', 'C', 'S'][target], position=pos,
             outcome=outcome, trace=hooks, expected=want)
    return outcome == 'ok' and hooks == want


def scalar_savorize(enum_flavour: bool, fa: bool, fb: bool, fc: bool,
                    fs: bool, fm: bool, target: int, pos: int) -> bool:
    """
    pre: 0 <= target < 4 and 0 <= pos < 4
    post: __return__
    """
    return _scalar_savorize(enum_flavour, fa, fb, fc, fs, fm, target, pos)


CONDITIONS = [
    {'fn': 'savorize', 'slices': [0, 1, 2, 3, 4], 'quick': 400,
     'thorough': 900,
     'bound': 'one slice per position: all 2^5 subsets of classes defining '
              '_yatiml_savorize (incl. the unregistered mix-in) x document '
              'denoting A/B/C/S/X, untagged or tagged with its class, x the '
              'hook of A/B/C/S (or none) raising '
              'SeasoningError with or without a message; the mix-in is named '
              'like the registered class S whenever S defines the hook; trace == base-first own-body hooks of the '
              'registered chain, all before the constructor'},
    {'fn': 'savorize_reach', 'quick': 60, 'thorough': 60,
     'expect': 'REFUTED', 'bound': 'reachability twin'},
    {'fn': 'recognize', 'quick': 400, 'thorough': 900,
     'bound': 'all 2^5 subsets of classes defining _yatiml_recognize x '
              'document denoting A/B/C/S/X x 5 positions: every call has cls '
              '== the defining class, the mix-in\'s is never called, the '
              'document loads'},
    {'fn': 'scalar_sweeten', 'quick': 200, 'thorough': 400,
     'bound': 'classes written as scalars: a UserString hierarchy A <- B <- '
              'C(+ unregistered mix-in), sibling S, and an Enum hierarchy '
              '(member-less A <- B, members on C(M, B) and S(A)); all 2^5 '
              'subsets defining _yatiml_sweeten x object of each class x 4 '
              'positions: trace == base-first own-body hooks of the '
              'registered chain, each once, never the mix-in\'s'},
    {'fn': 'scalar_savorize', 'quick': 200, 'thorough': 400,
     'bound': 'the same families with _yatiml_savorize, documents denoting '
              'the leaf classes C and S at 4 positions whose type names that '
              'class'},
    {'fn': 'sweeten', 'quick': 110, 'thorough': 300,
     'bound': 'all 2^5 subsets of classes defining _yatiml_sweeten x object '
              'of class A/B/C/S/X x 5 positions: trace == base-first own-body '
              'hooks of the registered chain, each once'},
]
