"""C05 -- loading what was dumped gives back an equal object.

E2 (all strings): scalar lemmas over the REAL resolver tables of the dumper
and of the loader -- whatever the dumper may write plain for a str/int/float/
bool/null/date comes back with that type.
E1 (bounded): load(dumps(v)) == v through the public functions for values
chosen by the solver from the factor space of vlib/values.py (per path the
value is concrete, so the real emitter, scanner and parser run on it).
"""
import json
import sys
from typing import List

import yaml

import yatiml
from vlib import values
from vlib.common import (P, SYMBOLIC, T_BOOL, T_FLOAT, T_INT, T_NULL, T_STR,
                         T_TS, install_stubs, note, pick, plain, slice_no,
                         tier)

install_stubs(composer=False)
QUICK = tier() == 'quick'
E2 = True

ENCODED = [
    'yatiml.dumper.DumpsFunction.__call__, Dumper.__init__, '
    'Dumper.represent_ordereddict, add_to_dumper',
    'yatiml.representers.Representer.__call__/_Representer__sweeten, '
    'EnumRepresenter, UserStringRepresenter, PathRepresenter',
    'yatiml.helpers.Node.remove_attributes_with_default_values, '
    'seq_attribute_to_map, map_attribute_to_seq, index_attribute_to_map, '
    'map_attribute_to_index, dashes/unders (sweeten/savorize pairs)',
    'the whole load pipeline (see C01) on the dumped text',
    'PyYAML SafeRepresenter, Serializer, Emitter, Scanner, Parser, Composer '
    '(executed for real on per-path concrete values)',
    'E2: yatiml.dumper.Dumper.yaml_implicit_resolvers of a generated '
    'UserDumper and the per-instance table of a generated UserLoader, '
    'yaml.resolver.BaseResolver.resolve']
ASSUMPTIONS = [
    'E1 values: one or two factors of the 12 class models of vlib/values.py '
    'varied at a time over palettes (66 adversarial strings, 8 ints, 13 '
    'floats incl. inf/-inf/nan/-0.0/5e-324, 6 dates/datetimes, 7 paths, '
    'enums with members named true/yes/null/1e5, string-likes also as dict '
    'keys, extra attributes, defaults dropped by sweetening, two '
    'sweeten/savorize inverse pairs, a lower/upper-casing enum, shared '
    'sub-objects); other values are outside the bound',
    'E2: domain = strings without newline; trusted base as for C09 '
    '(translator validated on every run); the emitter writes a str scalar '
    'plain only if the dumper\'s resolver maps its value to str (PyYAML '
    'Serializer/Emitter contract: implicit flag)',
    'float(repr(x)) == x is CPython\'s; lone surrogates cannot be encoded by '
    'PyYAML\'s emitter and are expected to fail at dump time (not a '
    'round-trip claim)',
]


def _roundtrip(mi, f, x, f2, x2, pair=False):
    v = values.value2(mi, f, x, f2, x2) if pair else values.value(mi, f, x)
    if v is None:
        return None
    load, dumps = values.functions(mi)[:2]
    before = plain(v, False)
    try:
        text = dumps(v)
    except (UnicodeEncodeError, yaml.YAMLError) as e:
        # PyYAML cannot write this value at all (lone surrogate, ...)
        if not SYMBOLIC:
            note(value=before, dump_raises=type(e).__name__)
        return None
    try:
        back = load(text)
    except Exception as e:   # noqa
        if not SYMBOLIC:
            note(value=before, text=text,
                 load_raises='%s: %s' % (type(e).__name__, str(e)[-300:]))
        return False
    after = plain(back, False)
    if not SYMBOLIC:
        note(model=values.MODELS[mi][0], value=before, text=text,
             loaded=after)
    return after == before and plain(v, False) == before


def roundtrip(f: int, x: int) -> bool:
    """
    pre: 0 <= f < 10 and 0 <= x < 70
    post: __return__
    """
    r = _roundtrip(slice_no(0), f, x, f, x)
    return True if r is None else r


def roundtrip_reach(f: int, x: int) -> bool:
    """
    pre: 0 <= f < 10 and 0 <= x < 70
    post: __return__
    """
    r = _roundtrip(slice_no(0), f, x, f, x)
    return not (r and f == 1 and x == 2)


def roundtrip2(x1: int, f2: int, x2: int) -> bool:
    """
    pre: 0 <= x1 < 70 and 0 <= f2 < 10 and 0 <= x2 < 70
    post: __return__
    """
    sl = slice_no(0)
    r = _roundtrip(sl // 16, sl % 16, x1, f2, x2, pair=True)
    return True if r is None else r


CONDITIONS = [
    {'fn': 'roundtrip2', 'slices': values.combine_slices(), 'quick': None,
     'thorough': 600,
     'bound': 'TWO factors at a time for the doc, styled and opt models (one '
              'slice per model and first factor): every pair of alternatives '
              'of two different factors'},
    {'fn': 'roundtrip', 'slices': list(range(len(values.MODELS))),
     'quick': 110, 'thorough': 300,
     'bound': 'one slice per class model: every alternative of every factor '
              '(see assumptions), value -> dumps -> load -> structural '
              'equality'},
    {'fn': 'roundtrip_reach', 'slices': [0], 'quick': 60, 'thorough': 60,
     'expect': 'REFUTED',
     'bound': 'reachability twin: Doc(b="1e5") round-trips'},
]


# ------------------------------------------------------------------- E2
def scalar_roundtrips(text: str) -> bool:
    """Replay target of the str lemma: the string `text` survives
    load(dumps(.)) as a value, as a dict key and as a list item."""
    load = yatiml.load_function()
    dumps = yatiml.dumps_function()
    for v in (text, {text: text}, [text]):
        try:
            t = dumps(v)
        except (UnicodeEncodeError, yaml.YAMLError):
            continue
        try:
            back = load(t)
        except Exception as e:  # noqa
            note(value=repr(v), text=t, load_raises=type(e).__name__)
            return False
        note(value=repr(v), text=t, loaded=repr(back))
        if back != v or type(back) is not type(v):
            return False
    return True


def e2_main(tier_: str, out: str) -> int:
    import z3
    from vlib import smtre
    from vlib.smtre import ResolverModel, Session, py_resolve
    from harness.c09_resolver import CORPUS

    ses = Session(timeout_ms=120000)
    s = ses.s
    dumper_cls = yatiml.dumps_function().dumper
    dtable = dumper_cls.yaml_implicit_resolvers
    ldr = yatiml.load_function().loader('')
    ltable = ldr.yaml_implicit_resolvers
    result = {'queries': [], 'validation': {}, 'violations': [],
              'harness_errors': []}
    try:
        Rd = ResolverModel(dtable, s)
        Rl = ResolverModel(ltable, s)
    except smtre.Untranslatable as e:
        result['untranslatable'] = str(e)
        json.dump(result, open(out, 'w'), indent=1)
        return 0
    # validation of the dumper-side encoding on the corpus
    nval = 0
    dinst = dumper_cls(None, None, None, None, None, None, None, None, None,
                       None, None, None, None, False)
    for w in CORPUS:
        a = dinst.resolve(yaml.ScalarNode, w, (True, False))
        c = z3.simplify(z3.substitute(Rd.term, (s, z3.StringVal(w))))
        nval += 1
        if Rd.tags[c.as_long()] != a or py_resolve(dtable, w) != a:
            result['harness_errors'].append(
                'dumper resolve encoding disagrees on %r' % w)
    for key, (rx, lang) in Rd.patterns.items():
        for w in CORPUS:
            nval += 1
            if (rx.match(w) is not None) != z3.is_true(z3.simplify(
                    z3.InRe(z3.StringVal(w), lang))):
                result['harness_errors'].append(
                    'translator disagrees on %r for %s' % (w, rx.pattern[:50]))
    result['validation'] = {'comparisons': nval}

    D = smtre.rng(48, 57)
    D19 = smtre.rng(49, 57)
    opt, cat, lit = z3.Option, smtre.concat, smtre.lit
    neg = opt(lit('-'))
    py_int = z3.Union(lit('0'), cat([neg, D19, z3.Star(D)]))
    exp = cat([lit('e'), smtre.words('-+'), z3.Plus(D)])
    py_float = z3.Union(
        cat([neg, z3.Plus(D), lit('.'), z3.Plus(D), opt(exp)]),
        smtre.words(['.inf', '-.inf', '.nan']))
    d2, d4 = cat([D, D]), cat([D, D, D, D])
    date = cat([d4, lit('-'), d2, lit('-'), d2])
    dtime = cat([date, lit(' '), d2, lit(':'), d2, lit(':'), d2,
                 opt(cat([lit('.'), D, D, D, D, D, D])),
                 opt(cat([smtre.words('-+'), d2, lit(':'), d2]))])
    inre = lambda r: z3.InRe(s, r)   # noqa
    both = lambda t: z3.And(Rd.is_(t), Rl.is_(t))   # noqa
    Q = [
        ('str lemma: the dumper may write a str plain (its resolver says '
         'str) but the loader reads another type',
         [Rd.is_(T_STR), z3.Not(Rl.is_(T_STR))], 'scalar_roundtrips'),
        ('int lemma: some str(int) is not int for dumper and loader',
         [inre(py_int), z3.Not(both(T_INT))], None),
        ('float lemma: some represent_float output is not float for dumper '
         'and loader', [inre(py_float), z3.Not(both(T_FLOAT))], None),
        ('bool lemma', [z3.Or(s == z3.StringVal('true'),
                              s == z3.StringVal('false')),
                        z3.Not(both(T_BOOL))], None),
        ('null lemma', [s == z3.StringVal('null'), z3.Not(both(T_NULL))],
         None),
    ]
    import importlib
    me = importlib.import_module('harness.c05_roundtrip')
    for name, cons, target in Q:
        rec = ses.query(name, *cons)
        rec.pop('_solver')
        if rec['result'] == 'sat':
            w = rec['witness']
            if target:
                ok = getattr(me, target)(w)
                if not ok:
                    result['violations'].append(
                        {'query': name, 'function': target,
                         'args': {'text': w}})
                else:
                    # the lemma over-approximates (the emitter may quote for
                    # other reasons): not a violation, but not proven either
                    rec['inconclusive'] = True
                    rec['result'] = 'sat-but-benign'
            else:
                result['violations'].append(
                    {'query': name, 'function': 'lemma_witness',
                     'args': {'text': w, 'lemma': name}})
        result['queries'].append(rec)
    # date / datetime lemmas, decomposed per bucket and pattern (the full
    # resolver term makes z3 time out on the long datetime language)
    for lname, lang in (('date.isoformat()', date),
                        ('datetime.isoformat(" ")', dtime)):
        for side, table in (('dumper', dtable), ('loader', ltable)):
            for rec in smtre.resolves_to_decomposed(
                    ses, table, lang, T_TS, '%s is a timestamp for the %s' % (
                        lname, side), first_chars='0123456789'):
                if rec['result'] == 'sat':
                    result['violations'].append(
                        {'query': rec['name'], 'function': 'lemma_witness',
                         'args': {'text': rec['witness'], 'lemma': 'date'}})
                result['queries'].append(rec)
    R = [('reach: a string the dumper writes plain as str', [Rd.is_(T_STR),
                                                            z3.Length(s) > 2]),
         ('reach: a 1.2-only float spelling is not str for the dumper',
          [s == z3.StringVal('1e5'), z3.Not(Rd.is_(T_STR))])]
    for name, cons in R:
        rec = ses.query(name, *cons, expect='sat')
        rec.pop('_solver')
        if rec['result'] != 'sat':
            result['harness_errors'].append('vacuity: "%s" is %s' % (
                name, rec['result']))
        result['queries'].append(rec)
    json.dump(result, open(out, 'w'), indent=1)
    return 0


def lemma_witness(text: str, lemma: str) -> bool:
    """Replay target of the int/float/bool/null/date lemmas: the witness is
    checked against the real resolvers."""
    d = yatiml.dumps_function().dumper(None, None, None, None, None, None,
                                       None, None, None, None, None, None,
                                       None, False)
    ldr = yatiml.load_function().loader('')
    a = d.resolve(yaml.ScalarNode, text, (True, False))
    b = ldr.resolve(yaml.ScalarNode, text, (True, False))
    note(text=text, lemma=lemma, dumper_resolves=a, loader_resolves=b)
    want = {'int': T_INT, 'flo': T_FLOAT, 'boo': T_BOOL, 'nul': T_NULL,
            'dat': T_TS}[lemma[:3]]
    return a == want and b == want


if __name__ == '__main__':
    if len(sys.argv) >= 4 and sys.argv[1] == '--e2':
        sys.exit(e2_main(sys.argv[2], sys.argv[3]))
