"""C08 -- bad input is reported only as RecognitionError or a YAML error.

Same document space as C01 (vlib/pipeline.py), different assertion, plus
alias cycles and hooks/constructors that raise.
"""
import yaml

import yatiml
from vlib import docs, pipeline, zoo
from vlib.common import (SYMBOLIC, T_MAP, T_SEQ, T_STR, install_stubs,
                         mapping, note, pick, scalar, seq, slice_no, tier)
from vlib.pipeline import MODELS, MODEL_IDX, explore, run_load

install_stubs()
QUICK = tier() == 'quick'
LIM = pipeline.Limits(QUICK)

ENCODED = pipeline.PIPELINE_ENCODED
ASSUMPTIONS = pipeline.PIPELINE_ASSUMPTIONS + [
    'text-level inputs (arbitrary unicode, token soup) are outside the claim: '
    'the scanner/parser raise YAMLError subclasses by PyYAML\'s contract (S3)',
    'nesting depth is bounded by the base documents (RecursionError from '
    'depth alone is outside the property)',
]

ALLOWED = (yatiml.RecognitionError, yaml.YAMLError)


def _check(mi, outcome, val, built=None):
    if outcome == 'ok':
        note(outcome='returned')
        return True
    ok = isinstance(val, ALLOWED)
    if not SYMBOLIC:
        note(outcome='raises %s: %s' % (type(val).__name__, str(val)[:300]),
             allowed=ok)
    return ok


def mutants(site: int, mut: int, rsel: int, tag: str, vsel: int,
            ksel: int) -> bool:
    """
    pre: 0 <= site < 28 and 0 <= mut < 8 and 0 <= rsel < 90
    pre: 1 <= len(tag) <= 40 and tag != '!'
    pre: not tag.startswith('tag:yaml.org,2002:')
    pre: 0 <= vsel < 20 and 0 <= ksel < 15
    post: __return__
    """
    r = explore(slice_no(0), site, mut, rsel, tag, vsel, ksel, LIM, _check)
    return True if r is None else r[1]


def mutants_reach(site: int, mut: int, rsel: int, tag: str, vsel: int,
                  ksel: int) -> bool:
    """
    pre: 0 <= site < 28 and 0 <= mut < 8 and 0 <= rsel < 90
    pre: 1 <= len(tag) <= 40 and tag != '!'
    pre: not tag.startswith('tag:yaml.org,2002:')
    pre: 0 <= vsel < 20 and 0 <= ksel < 15
    post: __return__
    """
    r = explore(slice_no(0), site, mut, rsel, tag, vsel, ksel, LIM, _check)
    if r is None:
        return True
    # witness: a mutated document that is *rejected* with an allowed error
    return not (r[1] and r[0] == 'raise')


def empty_stream(which: int) -> bool:
    """
    pre: 0 <= which < 30
    post: __return__
    """
    for mi in range(len(MODELS)):       # concrete model index per path
        if which == mi:
            outcome, val = run_load(mi, None)
            note(model=MODELS[mi][0])
            return _check(mi, outcome, val)
    return True


# ---------------------------------------------------------------- cycles
_CYC_MODELS = ['top_any', 'top_list', 'top_dict', 'loose', 'coll', 'plain',
               'top_union']


def _cycle_doc(shape: int):
    """Self-referential documents (what `&a [*a]` etc. compose to)."""
    if shape == 0:                      # &a [*a]
        n = seq([])
        n.value.append(n)
        return n
    if shape == 1:                      # &a {k: *a}
        n = mapping([])
        n.value.append((scalar(T_STR, 'k'), n))
        return n
    if shape == 2:                      # a: &a [1, *a]   (below a key)
        inner = seq([scalar('tag:yaml.org,2002:int', '1')])
        inner.value.append(inner)
        return mapping([(scalar(T_STR, 'a'), inner)])
    if shape == 3:                      # &a {a: {k: *a}}  (two-step cycle)
        n = mapping([])
        mid = mapping([(scalar(T_STR, 'k'), n)])
        n.value.append((scalar(T_STR, 'a'), mid))
        return n
    if shape == 4:                      # - &a [[*a]]
        inner = seq([])
        inner.value.append(seq([inner]))
        return seq([inner])
    if shape == 5:                      # &a {x: 1, zz: *a}
        n = mapping([])
        n.value.append((scalar(T_STR, 'x'),
                        scalar('tag:yaml.org,2002:int', '1')))
        n.value.append((scalar(T_STR, 'zz'), n))
        return n
    if shape == 6:                      # &a {? *a : 1}   (cycle through a key)
        n = mapping([])
        n.value.append((n, scalar('tag:yaml.org,2002:int', '1')))
        return n
    if shape == 7:                      # &a {? [x, *a] : 1}
        n = mapping([])
        n.value.append((seq([scalar(T_STR, 'x'), n]),
                        scalar('tag:yaml.org,2002:int', '1')))
        return n
    n = seq([])                         # &a [{? *a : 1}]
    n.value.append(mapping([(n, scalar('tag:yaml.org,2002:int', '1'))]))
    return n


def _cycles(m, shape) -> bool:
    mi = MODEL_IDX[pick(_CYC_MODELS, m)]
    outcome, val = run_load(mi, _cycle_doc(shape))
    note(model=MODELS[mi][0], shape=shape)
    return _check(mi, outcome, val)


def cycles(m: int, shape: int) -> bool:
    """
    pre: 0 <= m < 7 and 0 <= shape < 9
    post: __return__
    """
    return _cycles(m, shape)


def cycles_reach(m: int, shape: int) -> bool:
    """
    pre: 0 <= m < 7 and 0 <= shape < 9
    post: __return__
    """
    return not (_cycles(m, shape) and m == 0 and shape == 0)


def doubles(m1: int, site: int, mut: int, rsel: int, tag: str, vsel: int,
            ksel: int) -> bool:
    """
    pre: 0 <= m1 < 6 and 0 <= site < 28 and 0 <= mut < 6 and 0 <= rsel < 90
    pre: 1 <= len(tag) <= 40 and tag != '!'
    pre: not tag.startswith('tag:yaml.org,2002:')
    pre: 0 <= vsel < 20 and 0 <= ksel < 15
    post: __return__
    """
    r = pipeline.explore2(slice_no(0), m1, site, mut, rsel, tag, vsel, ksel,
                          _check)
    return True if r is None else r[1]


CONDITIONS = [
    {'fn': 'doubles', 'slices': pipeline.double_slices(), 'quick': None,
     'thorough': 300,
     'bound': 'TWO simultaneous mutations on the first base document of 4 '
              'models: one slice per first site; first mutation = drop the '
              'entry / set one of 3 values / retag str or int; second '
              'mutation = any single-point mutation of the quick palettes at '
              'any other site'},
    {'fn': 'mutants', 'slices': pipeline.C08_SLICES,
     'quick_slices': pipeline.C08_QUICK_SLICES, 'quick': 160, 'thorough': 300,
     'bound': pipeline.MUTANT_BOUND},
    {'fn': 'mutants_reach',
     'slices': [pipeline.slice_for('plain', 0, 2)],
     'quick': 100, 'thorough': 100, 'expect': 'REFUTED',
     'bound': 'reachability twin: a mutated document that is rejected'},
    {'fn': 'empty_stream', 'quick': 60, 'thorough': 60,
     'bound': 'the empty stream for each of the 16 document types'},
    {'fn': 'cycles', 'quick': 100, 'thorough': 100, 'twin': 'cycles_reach',
     'bound': '9 self-referential document shapes (through values, items '
              'and complex keys) x 7 document types '
              '(Any, List[int], Dict[str, Sub], classes with Any/extra '
              'positions, typed classes, a Union)'},
]
