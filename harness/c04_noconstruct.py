"""C04 -- a document cannot cause construction of objects the type model does
not call for.

Document space: vlib/pipeline.py, models with Any / untyped / _yatiml_extra
positions and a registered class (Trap) that no typed position admits; every
node of valid documents is retagged / replaced (free non-core tag, registered
class names reach it through the solver; !!python/* and core tags from the
palette).  The assertion is evaluated on normal return AND on exceptions.
"""
import os
import sys

from vlib import pipeline, ref, zoo
from vlib.common import (SYMBOLIC, VERIF, install_stubs, note, plain,
                         slice_no, tier)
from vlib.pipeline import MODELS, MUT_RETAG, explore

sys.path.insert(0, os.path.join(VERIF, 'vlib', 'canary'))
install_stubs()
QUICK = tier() == 'quick'
LIM = pipeline.Limits(QUICK)

ENCODED = pipeline.PIPELINE_ENCODED
ASSUMPTIONS = pipeline.PIPELINE_ASSUMPTIONS + [
    'observation: self-instrumenting classes record every __init__ call; a '
    'registered class Trap that no annotation mentions must never be '
    'constructed; verif_canary (importable, on sys.path) must never be '
    'imported or called',
    'bytes (from an explicit !!binary under Any) counts as a built-in '
    'scalar',
]


def _under_any(val, t, out):
    """Collect the sub-values of `val` found at Any/untyped/extra positions,
    walking the declared type t."""
    from typing import Any
    if t is Any:
        out.append(val)
        return
    if ref.is_union(t):
        for a in ref.args(t):
            if ref.conforms(val, a, _CLASSES[0]):
                _under_any(val, a, out)
                return
        return
    if ref.is_seq(t) and isinstance(val, list):
        for x in val:
            _under_any(x, ref.args(t)[0], out)
        return
    if ref.is_map(t) and isinstance(val, dict):
        for x in val.values():
            _under_any(x, ref.args(t)[1], out)
        return
    import inspect
    if inspect.isclass(t) and isinstance(val, t) and hasattr(val, '__dict__') \
            and type(val) in _CLASSES[0]:
        for n, ann, _, _ in ref.params(type(val)):
            if hasattr(val, n):
                _under_any(getattr(val, n), ann, out)
        if ref.takes_extra(type(val)):
            ex = getattr(val, '_yatiml_extra', None)
            if ex is not None:
                out.append(ex)


_CLASSES = [None]


def _check(mi, outcome, val, built=None):
    name, doc_type, classes, _ = MODELS[mi]
    _CLASSES[0] = classes
    # (3) nothing named by the document is imported or called
    if 'verif_canary' in sys.modules:
        if not SYMBOLIC:
            note(canary='verif_canary was imported',
                 fired=repr(sys.modules['verif_canary'].FIRED))
        return False
    # (1) constructors: only registered classes, only with conforming
    # arguments, never the class no position admits
    for ev in zoo.TRACE:
        if ev[0] == 'init' and ev[1] is zoo.Trap:
            if not SYMBOLIC:
                note(trap='Trap.__init__ ran', kwargs=repr(ev[2]))
            return False
    bad = ref.trace_conforms(zoo.TRACE, classes)
    if bad:
        if not SYMBOLIC:
            note(offending_call=bad)
        return False
    if outcome == 'raise':
        return True
    # (2) plain data below Any / untyped / extra positions
    found = []
    _under_any(val, doc_type, found)
    for v in found:
        if not ref.is_plain_data(v):
            if not SYMBOLIC:
                note(outcome='returned', value=plain(val),
                     not_plain=plain(v))
            return False
    if not SYMBOLIC:
        note(outcome='returned', value=plain(val))
    return True


def mutants(site: int, mut: int, rsel: int, tag: str, vsel: int,
            ksel: int) -> bool:
    """
    pre: 0 <= site < 28 and 0 <= mut < 8 and 0 <= rsel < 90
    pre: 1 <= len(tag) <= 40 and tag != '!'
    pre: not tag.startswith('tag:yaml.org,2002:')
    pre: 0 <= vsel < 20 and 0 <= ksel < 15
    post: __return__
    """
    r = explore(slice_no(0), site, mut, rsel, tag, vsel, ksel, LIM, _check)
    return True if r is None else r[1]


def mutants_reach(site: int, mut: int, rsel: int, tag: str, vsel: int,
                  ksel: int) -> bool:
    """
    pre: 0 <= site < 28 and 0 <= mut < 8 and 0 <= rsel < 90
    pre: 1 <= len(tag) <= 40 and tag != '!'
    pre: not tag.startswith('tag:yaml.org,2002:')
    pre: 0 <= vsel < 20 and 0 <= ksel < 15
    post: __return__
    """
    r = explore(slice_no(0), site, mut, rsel, tag, vsel, ksel, LIM, _check)
    if r is None:
        return True
    # witness: a document with a registered class tag injected below an Any
    # position still loads (to plain data)
    return not (r[1] and r[0] == 'ok' and mut == MUT_RETAG and site == 2
                and tag == '!Trap')


def doubles(m1: int, site: int, mut: int, rsel: int, tag: str, vsel: int,
            ksel: int) -> bool:
    """
    pre: 0 <= m1 < 6 and 0 <= site < 28 and 0 <= mut < 6 and 0 <= rsel < 90
    pre: 1 <= len(tag) <= 40 and tag != '!'
    pre: not tag.startswith('tag:yaml.org,2002:')
    pre: 0 <= vsel < 20 and 0 <= ksel < 15
    post: __return__
    """
    r = pipeline.explore2(slice_no(0), m1, site, mut, rsel, tag, vsel, ksel,
                          _check)
    return True if r is None else r[1]


CONDITIONS = [
    {'fn': 'doubles', 'slices': pipeline.double_slices(), 'quick': None,
     'thorough': 300,
     'bound': 'TWO simultaneous mutations on the first base document of 4 '
              'models: one slice per first site; first mutation = drop the '
              'entry / set one of 3 values / retag str or int; second '
              'mutation = any single-point mutation of the quick palettes at '
              'any other site'},
    {'fn': 'mutants', 'slices': pipeline.C04_SLICES,
     'quick_slices': pipeline.C04_QUICK_SLICES, 'quick': 260,
     'thorough': 300, 'bound': pipeline.MUTANT_BOUND +
     '; models: trap_loose, trap_any, trap_dict, trap_typed, loose, top_any'},
    {'fn': 'mutants_reach',
     'slices': [pipeline.slice_for('trap_loose', 0, 2, 2)],
     'quick': 100, 'thorough': 100, 'expect': 'REFUTED',
     'bound': 'reachability twin: !Trap injected below an Any position'},
]
