"""C13 -- load is invariant under changes that do not alter the document's
meaning.

Oracle-free pairs on the real pipeline: the same (possibly invalid) document
is loaded twice, the second time after a meaning-preserving change of the
document (key order of a mapping, scalar/collection styles and marks) or of
the model (unrelated classes registered, List/Sequence/MutableSequence and
Dict/Mapping/MutableMapping interchanged, bool_union_fix added).  Both must
fail, or both must load to structurally equal values.
"""
import yaml

import yatiml
from vlib import docs, pipeline, zoo
from vlib.common import (SYMBOLIC, install_stubs, note, pick, slice_no, tier)
from vlib.pipeline import (BASES, MODELS, MODEL_IDX, MUT_ADD, MUT_NONE,
                           mutated, outcome_sig, run_load, run_load_with)

install_stubs()
from vlib import common as _common  # noqa: E402
_common.STYLE_FAITHFUL[0] = True     # replay keeps scalar/collection styles
QUICK = tier() == 'quick'
LIM = pipeline.Limits(True)
LIM.nretags, LIM.nvals = 3, 2       # the pair doubles the cost
LIM_T = pipeline.Limits(False)

ENCODED = pipeline.PIPELINE_ENCODED
ASSUMPTIONS = [a for a in pipeline.PIPELINE_ASSUMPTIONS] + [
    'that a textual re-serialisation in another style really preserves the '
    'node tags is PyYAML\'s; here the node-level effect of such a '
    're-serialisation is applied: every scalar gets style plain, single or '
    'double quoted, every collection block or flow style, all marks move',
    'unrelated classes: three classes (two mapping classes, one enum) whose '
    'names and attributes do not occur in the models',
]

# loaders with three unrelated classes additionally registered
_EXTRA = {}
for _mi, (_n, _dt, _cls, _specs) in enumerate(MODELS):
    if _n in pipeline.CORE:
        _others = [c for c in _cls if c is not _dt]
        _EXTRA[_mi] = yatiml.load_function(
            _dt, zoo.Unrel1, *_others, zoo.UnrelEnum, zoo.Unrel2)
_COLL = [yatiml.load_function(*zoo.make_coll(v)) for v in range(3)]
_UNI = [yatiml.load_function(*zoo.make_uni(f)) for f in (0, 1, 2)]
_COLL_MI, _UNI_MI = MODEL_IDX['coll'], MODEL_IDX['uni']

T_REORDER, T_STYLE, T_EXTRA, T_GENERIC, T_BOOLFIX, T_ALIAS = range(6)
NT = 6


def _restyle(node, sstyle, flow, seen=None):
    if isinstance(node, yaml.ScalarNode):
        node.style = sstyle
    else:
        node.flow_style = flow
        if isinstance(node, yaml.SequenceNode):
            for x in node.value:
                _restyle(x, sstyle, flow)
        else:
            for k, v in node.value:
                _restyle(k, sstyle, flow)
                _restyle(v, sstyle, flow)
    m = node.start_mark
    node.start_mark = node.end_mark = yaml.Mark(
        'other', m.index + 100, m.line + 100, m.column + 7, m.buffer,
        m.pointer)


def _rotate_all(node, reverse):
    """Reorder the entries of EVERY mapping below node (rotate by one, or
    reverse)."""
    if isinstance(node, yaml.SequenceNode):
        for x in node.value:
            _rotate_all(x, reverse)
    elif isinstance(node, yaml.MappingNode):
        for k, v in node.value:
            _rotate_all(k, reverse)
            _rotate_all(v, reverse)
        if reverse:
            node.value = list(reversed(node.value))
        elif len(node.value) > 1:
            node.value = list(node.value[1:]) + [node.value[0]]


def _unordered(sig):
    """outcome signature with mapping order made insignificant (used for the
    reordering transformation only: dict order follows document order by
    design, cf. C02)."""
    if isinstance(sig, tuple) and sig and sig[0] == 'dict':
        return ('dict', sig[1], sorted((repr(_unordered(k)), _unordered(v))
                                       for k, v in sig[2]))
    if isinstance(sig, tuple):
        return tuple(_unordered(x) for x in sig)
    if isinstance(sig, list):
        return [_unordered(x) for x in sig]
    return sig


NVAR = [2, 3, 1, 3, 2, 1]   # variants per transformation


def _pair(sl, site, mut, rsel, tag, vsel, p):
    """slice = index into BASES * NT + transformation.  Returns None (no such
    case) or (equal?, first outcome)."""
    si, t = sl // NT, sl % NT
    mi, bi, n = BASES[si]
    if site >= n or mut in (MUT_ADD, pipeline.MUT_REPLACE, pipeline.MUT_DUP):
        return None
    if p >= NVAR[t] or (QUICK and t == T_STYLE and p >= 2):
        return None
    if (mut == pipeline.MUT_ALIAS) != (t == T_ALIAS):
        return None         # aliases: only against the JSON-style twin
    name = MODELS[mi][0]
    lim = LIM if QUICK else LIM_T
    a = mutated(mi, bi, site, mut, rsel, tag, vsel, 0, lim)
    if a is None:
        return None
    b = mutated(mi, bi, site, mut, rsel, tag, vsel, 0, lim)
    la = lb = pipeline.loader_for(mi)
    if t == T_REORDER:
        _rotate_all(b.root, p == 1)
    elif t == T_STYLE:
        _restyle(b.root, pick(['"', "'", None], p),
                 pick([True, False, True], p))
    elif t == T_ALIAS:
        # JSON style (flow, double quoted) has no anchors: every alias is
        # written out as a copy
        b.root = pipeline.clone(b.root)
        _restyle(b.root, '"', True)
    elif t == T_EXTRA:
        lb = _EXTRA[mi]
    elif t == T_GENERIC:
        la, lb = pick([_COLL[0], _COLL[0], _COLL[1]], p), \
            pick([_COLL[1], _COLL[2], _COLL[2]], p)
    else:
        la, lb = _UNI[0], pick([_UNI[1], _UNI[2]], p)
    ra = outcome_sig(*run_load_with(la, a.root))
    if not SYMBOLIC:
        from vlib.common import LAST
        note(first_text=LAST.get('yaml_text'))
    rb = outcome_sig(*run_load_with(lb, b.root))
    if t == T_REORDER:
        ra, rb = _unordered(ra), _unordered(rb)
    if not SYMBOLIC:
        note(model=name, base=bi, site=site, mutation=mut, transform=t,
             variant=p, first=ra, second=rb)
    return ra == rb, ra


def pairs(site: int, mut: int, rsel: int, tag: str, vsel: int,
          p: int) -> bool:
    """
    pre: 0 <= site < 28 and 0 <= mut < 8 and 0 <= rsel < 28
    pre: 1 <= len(tag) <= 40 and tag != '!'
    pre: not tag.startswith('tag:yaml.org,2002:')
    pre: 0 <= vsel < 20 and 0 <= p < 3
    post: __return__
    """
    r = _pair(slice_no(0), site, mut, rsel, tag, vsel, p)
    return True if r is None else r[0]


def pairs_reach(site: int, mut: int, rsel: int, tag: str, vsel: int,
                p: int) -> bool:
    """
    pre: 0 <= site < 28 and 0 <= mut < 8 and 0 <= rsel < 28
    pre: 1 <= len(tag) <= 40 and tag != '!'
    pre: not tag.startswith('tag:yaml.org,2002:')
    pre: 0 <= vsel < 20 and 0 <= p < 3
    post: __return__
    """
    r = _pair(slice_no(0), site, mut, rsel, tag, vsel, p)
    if r is None:
        return True
    # witness: a transformed valid document that loads
    return not (r[0] and r[1][0] == 'value' and mut == MUT_NONE)


def _slices(quick):
    out = []
    for k, (mi, bi, n) in enumerate(BASES):
        name = MODELS[mi][0]
        if name not in pipeline.CORE or (quick and bi != 0
                                         and name != 'uni'):
            continue
        ts = [T_REORDER, T_STYLE, T_EXTRA, T_ALIAS]
        if name == 'coll':
            ts.append(T_GENERIC)
        if name == 'uni':
            ts.append(T_BOOLFIX)
        out += [k * NT + t for t in ts]
    return out


ALL, QUICKS = _slices(False), _slices(True)
_REACH = [k * NT + T_REORDER for k, (mi, bi, n) in enumerate(BASES)
          if MODELS[mi][0] == 'plain' and bi == 0]

CONDITIONS = [
    {'fn': 'pairs', 'slices': ALL, 'quick_slices': QUICKS, 'quick': 330,
     'thorough': 900,
     'bound': 'one slice per (model, base document, transformation): the '
              'base document with at most one mutation (retag with a FREE '
              'non-core tag or 22 (quick 3) palette tags, drop an entry, set '
              'one of 17 (quick 2) values) x transformation variants: rotate '
              '/ reverse the entries of every mapping (values compared with '
              'mapping order insignificant); restyle all scalars (double, '
              'single quoted, plain; quick: the first two) and collections '
              '(flow, block) and move '
              'all marks; a document in which one node is an alias of another '
              '(any pair) against its JSON-style twin (flow, double quoted, '
              'every alias written out as a copy); register three unrelated classes; List/Sequence/'
              'MutableSequence and Dict/Mapping/MutableMapping families '
              'pairwise (coll model); bool_union_fix added at the end or right '
              'after bool (uni model)'},
    {'fn': 'pairs_reach', 'slices': _REACH, 'quick': 100, 'thorough': 100,
     'expect': 'REFUTED',
     'bound': 'reachability twin: a reordered valid document that loads'},
]
