"""C18 -- anchors and aliases are transparent.

Pairs of runs of the real pipeline (no oracle): a document in which node j IS
node i (what `*anchor` composes to) against the same document with a copy of
node i at j.  Both must fail, or both load to structurally equal values.
Optionally node i is retagged first (valid and invalid documents).
"""
import yaml

from vlib import docs, pipeline
from vlib.common import (SYMBOLIC, install_stubs, note, pick, slice_no, tier)
from vlib.pipeline import (BASES, MODELS, RETAGS, clone, is_descendant,
                           outcome_sig, run_load, run_load_all)

install_stubs()
QUICK = tier() == 'quick'

ENCODED = pipeline.PIPELINE_ENCODED + [
    'yatiml.util.expand_aliases', 'yatiml.util.find_recursive_alias',
    'Loader._Loader__check_not_recursive']
ASSUMPTIONS = [a for a in pipeline.PIPELINE_ASSUMPTIONS
               if not a.startswith('documents:')] + [
    'documents: the base documents of the 16 core models and of a model '
    'whose differently typed positions accept the same content, one node '
    'optionally retagged (free non-core tag or a palette tag), with one '
    'alias: every ordered pair (i, j) of nodes such that i is not an '
    'ancestor of j, including key positions and positions of different '
    'declared types; two aliases (unretagged) on the small and nested '
    'models of condition alias2; three or more aliases are outside the '
    'bound',
    'unretagged single-alias documents are also read through the '
    'multi-document interface (yaml.load_all with the load function\'s '
    'Loader class, i.e. Loader.get_node; Composer.check_node/get_node are '
    'stubbed like get_single_node) and must give the same outcome',
    'S3 contract: the composer represents `*a` by the very node object '
    'anchored as `&a` (yaml/composer.py compose_node)',
]

NSUB = 3
N2SUB = 4


def _slice(sl):
    return sl // NSUB, sl % NSUB


def _build(mi, bi, i, j, rt, tag, shared: bool):
    b = docs.build(MODELS[mi][3][bi])
    n = len(b.nodes)
    if i >= n or j >= n or i == j:
        return None
    i, j = pick(list(range(n)), i), pick(list(range(n)), j)   # concrete
    ni, nj = b.nodes[i], b.nodes[j]
    if is_descendant(nj, ni):
        return None                     # would be a cycle: see `cycles`
    if rt - 2 >= len(RETAGS):
        return None
    if rt > 0:
        ni.tag = tag if rt == 1 else pick(RETAGS, rt - 2)
    docs.place(b, j, ni if shared else clone(ni))
    return b


def _alias(sl, i, j, rt, tag):
    si, sub = _slice(sl)
    mi, bi, n = BASES[si]
    if i % NSUB != sub:
        return None
    if QUICK and rt not in (0, 2):
        return None        # quick: no retag, or retag with the first palette tag
    a = _build(mi, bi, i, j, rt, tag, True)
    if a is None:
        return None
    e = _build(mi, bi, i, j, rt, tag, False)
    ra = outcome_sig(*run_load(mi, a.root))
    if not SYMBOLIC:
        from vlib.common import LAST
        note(aliased_text=LAST.get('yaml_text'))
    re_ = outcome_sig(*run_load(mi, e.root))
    if not SYMBOLIC:
        note(model=MODELS[mi][0], base=bi, anchor_node=i, alias_at=j,
             aliased=ra, expanded=re_)
    if ra != re_:
        return False, ra
    if rt == 0:
        # the same aliased document through the multi-document interface
        # (yaml.load_all with the function's Loader: Loader.get_node)
        a2 = _build(mi, bi, i, j, rt, tag, True)
        rm = outcome_sig(*run_load_all(mi, a2.root))
        if not SYMBOLIC:
            note(through_load_all=rm)
        if rm != re_:
            return False, ra
    return True, ra


def alias(i: int, j: int, rt: int, tag: str) -> bool:
    """
    pre: 0 <= i < 28 and 0 <= j < 28 and 0 <= rt < 24
    pre: 1 <= len(tag) <= 40 and tag != '!'
    pre: not tag.startswith('tag:yaml.org,2002:')
    post: __return__
    """
    r = _alias(slice_no(0), i, j, rt, tag)
    return True if r is None else r[0]


def alias_reach(i: int, j: int, rt: int, tag: str) -> bool:
    """
    pre: 0 <= i < 28 and 0 <= j < 28 and 0 <= rt < 24
    pre: 1 <= len(tag) <= 40 and tag != '!'
    pre: not tag.startswith('tag:yaml.org,2002:')
    post: __return__
    """
    r = _alias(slice_no(0), i, j, rt, tag)
    if r is None:
        return True
    # witness: an aliased document that loads to a value
    return not (r[0] and r[1][0] == 'value' and rt == 0)


def _acyclic(node, path=()):
    if any(node is p for p in path):
        return False
    if isinstance(node, yaml.SequenceNode):
        return all(_acyclic(x, path + (node,)) for x in node.value)
    if isinstance(node, yaml.MappingNode):
        return all(_acyclic(k, path + (node,)) and _acyclic(v, path + (node,))
                   for k, v in node.value)
    return True


def _alias2(sl, i, j, i2, j2):
    """Two aliases: node j IS node i, then -- in the document so obtained --
    node j2 IS node i2 (either may lie inside the other's anchored node:
    aliases nested in aliased collections).  Against the same document with
    every node written out (a deep copy shares nothing)."""
    si, sub = sl // N2SUB, sl % N2SUB
    mi, bi, n = BASES[si]
    if i % N2SUB != sub:
        return None
    b = docs.build(MODELS[mi][3][bi])
    if i >= n or j >= n or i2 >= n or j2 >= n or i == j or i2 == j2:
        return None
    if j2 == j or (i2, j2) == (i, j):
        return None
    rng = list(range(n))
    i, j, i2, j2 = pick(rng, i), pick(rng, j), pick(rng, i2), pick(rng, j2)
    ni, nj = b.nodes[i], b.nodes[j]
    if is_descendant(nj, ni):
        return None
    docs.place(b, j, ni)
    ni2, nj2 = b.nodes[i2], b.nodes[j2]
    if not (is_descendant(ni2, b.root) and is_descendant(nj2, b.root)):
        return None                     # removed by the first alias
    if ni2 is nj2 or is_descendant(nj2, ni2):
        return None
    docs.place(b, j2, ni2)
    if not _acyclic(b.root):
        return None
    expanded = clone(b.root)
    ra = outcome_sig(*run_load(mi, b.root))
    if not SYMBOLIC:
        from vlib.common import LAST
        note(aliased_text=LAST.get('yaml_text'))
    re_ = outcome_sig(*run_load(mi, expanded))
    if not SYMBOLIC:
        note(model=MODELS[mi][0], base=bi, first_alias=(i, j),
             second_alias=(i2, j2), aliased=ra, expanded=re_)
    return ra == re_, ra


def alias2(i: int, j: int, i2: int, j2: int) -> bool:
    """
    pre: 0 <= i < 12 and 0 <= j < 12 and 0 <= i2 < 12 and 0 <= j2 < 12
    post: __return__
    """
    r = _alias2(slice_no(0), i, j, i2, j2)
    return True if r is None else r[0]


def alias2_reach(i: int, j: int, i2: int, j2: int) -> bool:
    """
    pre: 0 <= i < 12 and 0 <= j < 12 and 0 <= i2 < 12 and 0 <= j2 < 12
    post: __return__
    """
    r = _alias2(slice_no(0), i, j, i2, j2)
    if r is None:
        return True
    # witness: the second alias lies inside the node anchored by the first
    return not (r[0] and r[1][0] == 'value' and i == 1 and j == 4
                and i2 == 2 and j2 == 3)


def _many(n, kind):
    """One anchored node and n aliases of it, as TEXT: n is concrete per
    path, so the real scanner, parser and composer run (the composer stub is
    lifted for this condition -- the number of alias events is only visible
    there)."""
    from vlib import common
    mi = pipeline.MODEL_IDX[pick(['top_list', 'top_any', 'nest_path'], kind)]
    item = pick(['7', '{k: 7}', '[a/b]'], kind)
    aliased = '[&a ' + item + ''.join([', *a'] * n) + ']'
    expanded = '[' + ', '.join([item] * (n + 1)) + ']'
    load = pipeline.loader_for(mi)
    stub = yaml.composer.Composer.get_single_node
    yaml.composer.Composer.get_single_node = common._REAL_COMPOSER_GSN
    try:
        out = []
        for text in (aliased, expanded):
            try:
                out.append(outcome_sig('ok', load(text)))
            except Exception as e:      # noqa
                out.append(outcome_sig('raise', e))
    finally:
        yaml.composer.Composer.get_single_node = stub
    ra, re_ = out
    if not SYMBOLIC:
        note(model=MODELS[mi][0], aliases=n, text=aliased[:80] + ' ...',
             aliased=str(ra)[:200], expanded=str(re_)[:200])
    return ra == re_ and ra[0] == 'value'


_MANY_Q = list(range(0, 70)) + [100, 128, 200, 256]


def many(ni: int, kind: int) -> bool:
    """
    pre: 0 <= ni < 74 and 0 <= kind < 3
    post: __return__
    """
    s = slice_no(-1)
    if s >= 0 and ni % 8 != s:
        return True
    return _many(pick(_MANY_Q, ni), kind)


def _cycles(m, shape):
    from harness.c08_errors import _CYC_MODELS, _cycle_doc
    mi = pipeline.MODEL_IDX[pick(_CYC_MODELS, m)]
    outcome, val = run_load(mi, _cycle_doc(shape))
    if not SYMBOLIC:
        note(model=MODELS[mi][0], shape=shape, outcome=outcome,
             error=type(val).__name__ if outcome == 'raise' else None)
    return outcome == 'raise' and not isinstance(
        val, (RecursionError, MemoryError))


def cycles(m: int, shape: int) -> bool:
    """
    pre: 0 <= m < 7 and 0 <= shape < 9
    post: __return__
    """
    return _cycles(m, shape)


_BASE_IDX = [k for k, (mi, bi, n) in enumerate(BASES)
             if MODELS[mi][0] in pipeline.CORE or MODELS[mi][0] == 'typed']
ALL = [k * NSUB + s for k in _BASE_IDX for s in range(min(NSUB, BASES[k][2]))]
QUICKS = [k * NSUB + s for k in _BASE_IDX if BASES[k][1] == 0
          for s in range(min(NSUB, BASES[k][2]))]


def _slice_for(model, bi, sub=0):
    for k, (mi, b, n) in enumerate(BASES):
        if MODELS[mi][0] == model and b == bi:
            return k * NSUB + sub
    raise KeyError(model)


_NEST = ('nest_path', 'nest_enum', 'nest_sav')
_SMALL2 = ('top_dict_path', 'top_list_enum', 'top_dict', 'top_any', 'sav')
ALL2 = [k * N2SUB + s for k, (mi, bi, n) in enumerate(BASES)
        if (MODELS[mi][0] in _NEST or (MODELS[mi][0] in pipeline.CORE
                                       and 4 <= n <= 11))
        for s in range(N2SUB)]
QUICKS2 = [k * N2SUB + s for k, (mi, bi, n) in enumerate(BASES)
           if (MODELS[mi][0] in _NEST
               or (MODELS[mi][0] in _SMALL2 and bi == 0 and n <= 7))
           for s in range(N2SUB)]


def _slice2_for(model, bi, sub=0):
    for k, (mi, b, n) in enumerate(BASES):
        if MODELS[mi][0] == model and b == bi:
            return k * N2SUB + sub
    raise KeyError(model)


CONDITIONS = [
    {'fn': 'alias2', 'slices': ALL2, 'quick_slices': QUICKS2, 'quick': 110,
     'thorough': 900,
     'bound': 'TWO aliases, one slice per (model, base document, i mod 4): '
              'node j is node i, then node j2 is node i2 of the document so '
              'obtained, every (i, j, i2, j2) that leaves the document '
              'acyclic -- so an alias may lie inside a collection that is '
              'itself aliased, or alias a node that contains an alias --, '
              'against a deep copy of the same document; models: nested '
              'collections of Path / enum / savorized-class values and '
              '(quick) five small core documents, (thorough) every core '
              'document of 4..11 nodes'},
    {'fn': 'many', 'slices': list(range(8)), 'quick': 110, 'thorough': 300,
     'bound': 'one anchored node (an int, a mapping under Any, a list of '
              'Paths) and n aliases of it in a sequence, n = 0..69, 100, 128, '
              '200, 256: loads to what the written-out document loads to'},
    {'fn': 'alias2_reach', 'slices': [_slice2_for('nest_path', 0, 1)],
     'quick': 100, 'thorough': 100, 'expect': 'REFUTED',
     'bound': 'reachability twin: [&a [&b x, *b], *a]'},
    {'fn': 'alias', 'slices': ALL, 'quick_slices': QUICKS, 'quick': 240,
     'thorough': 900,
     'bound': 'one slice per (model, base document, i mod 3): every ordered '
              'pair (i, j) of nodes with i not an ancestor of j; node i '
              'optionally retagged with a FREE non-core tag or one of 20 '
              'palette tags (quick: no retag or !!str only); aliased vs. expanded '
              'document'},
    {'fn': 'alias_reach', 'slices': [_slice_for('loose', 0, 0)],
     'quick': 100, 'thorough': 100, 'expect': 'REFUTED',
     'bound': 'reachability twin: an aliased document that loads'},
    {'fn': 'cycles', 'quick': 100, 'thorough': 100,
     'bound': '9 self-referential shapes x 7 document types: rejected with '
              'an error other than RecursionError/MemoryError'},
]
