"""C18 -- anchors and aliases are transparent.

Pairs of runs of the real pipeline (no oracle): a document in which node j IS
node i (what `*anchor` composes to) against the same document with a copy of
node i at j.  Both must fail, or both load to structurally equal values.
Optionally node i is retagged first (valid and invalid documents).
"""
import yaml

from vlib import docs, pipeline
from vlib.common import (SYMBOLIC, install_stubs, note, pick, slice_no, tier)
from vlib.pipeline import (BASES, MODELS, RETAGS, clone, is_descendant,
                           outcome_sig, run_load)

install_stubs()
QUICK = tier() == 'quick'

ENCODED = pipeline.PIPELINE_ENCODED + [
    'yatiml.util.expand_aliases', 'yatiml.util.find_recursive_alias',
    'Loader._Loader__check_not_recursive']
ASSUMPTIONS = [a for a in pipeline.PIPELINE_ASSUMPTIONS
               if not a.startswith('documents:')] + [
    'documents: the base documents of the 16 core models and of a model '
    'whose differently typed positions accept the same content, one node '
    'optionally retagged (free non-core tag or a palette tag), with one '
    'alias: every ordered pair (i, j) of nodes such that i is not an '
    'ancestor of j, including key positions and positions of different '
    'declared types; two or more aliases are outside the bound',
    'S3 contract: the composer represents `*a` by the very node object '
    'anchored as `&a` (yaml/composer.py compose_node)',
]

NSUB = 3


def _slice(sl):
    return sl // NSUB, sl % NSUB


def _build(mi, bi, i, j, rt, tag, shared: bool):
    b = docs.build(MODELS[mi][3][bi])
    n = len(b.nodes)
    if i >= n or j >= n or i == j:
        return None
    i, j = pick(list(range(n)), i), pick(list(range(n)), j)   # concrete
    ni, nj = b.nodes[i], b.nodes[j]
    if is_descendant(nj, ni):
        return None                     # would be a cycle: see `cycles`
    if rt - 2 >= len(RETAGS):
        return None
    if rt > 0:
        ni.tag = tag if rt == 1 else pick(RETAGS, rt - 2)
    docs.place(b, j, ni if shared else clone(ni))
    return b


def _alias(sl, i, j, rt, tag):
    si, sub = _slice(sl)
    mi, bi, n = BASES[si]
    if i % NSUB != sub:
        return None
    if QUICK and rt not in (0, 2):
        return None        # quick: no retag, or retag with the first palette tag
    a = _build(mi, bi, i, j, rt, tag, True)
    if a is None:
        return None
    e = _build(mi, bi, i, j, rt, tag, False)
    ra = outcome_sig(*run_load(mi, a.root))
    if not SYMBOLIC:
        from vlib.common import LAST
        note(aliased_text=LAST.get('yaml_text'))
    re_ = outcome_sig(*run_load(mi, e.root))
    if not SYMBOLIC:
        note(model=MODELS[mi][0], base=bi, anchor_node=i, alias_at=j,
             aliased=ra, expanded=re_)
    return ra == re_, ra


def alias(i: int, j: int, rt: int, tag: str) -> bool:
    """
    pre: 0 <= i < 28 and 0 <= j < 28 and 0 <= rt < 24
    pre: 1 <= len(tag) <= 40 and tag != '!'
    pre: not tag.startswith('tag:yaml.org,2002:')
    post: __return__
    """
    r = _alias(slice_no(0), i, j, rt, tag)
    return True if r is None else r[0]


def alias_reach(i: int, j: int, rt: int, tag: str) -> bool:
    """
    pre: 0 <= i < 28 and 0 <= j < 28 and 0 <= rt < 24
    pre: 1 <= len(tag) <= 40 and tag != '!'
    pre: not tag.startswith('tag:yaml.org,2002:')
    post: __return__
    """
    r = _alias(slice_no(0), i, j, rt, tag)
    if r is None:
        return True
    # witness: an aliased document that loads to a value
    return not (r[0] and r[1][0] == 'value' and rt == 0)


def _cycles(m, shape):
    from harness.c08_errors import _CYC_MODELS, _cycle_doc
    mi = pipeline.MODEL_IDX[pick(_CYC_MODELS, m)]
    outcome, val = run_load(mi, _cycle_doc(shape))
    if not SYMBOLIC:
        note(model=MODELS[mi][0], shape=shape, outcome=outcome,
             error=type(val).__name__ if outcome == 'raise' else None)
    return outcome == 'raise' and not isinstance(
        val, (RecursionError, MemoryError))


def cycles(m: int, shape: int) -> bool:
    """
    pre: 0 <= m < 7 and 0 <= shape < 9
    post: __return__
    """
    return _cycles(m, shape)


_BASE_IDX = [k for k, (mi, bi, n) in enumerate(BASES)
             if MODELS[mi][0] in pipeline.CORE or MODELS[mi][0] == 'typed']
ALL = [k * NSUB + s for k in _BASE_IDX for s in range(min(NSUB, BASES[k][2]))]
QUICKS = [k * NSUB + s for k in _BASE_IDX if BASES[k][1] == 0
          for s in range(min(NSUB, BASES[k][2]))]


def _slice_for(model, bi, sub=0):
    for k, (mi, b, n) in enumerate(BASES):
        if MODELS[mi][0] == model and b == bi:
            return k * NSUB + sub
    raise KeyError(model)


CONDITIONS = [
    {'fn': 'alias', 'slices': ALL, 'quick_slices': QUICKS, 'quick': 110,
     'thorough': 900,
     'bound': 'one slice per (model, base document, i mod 3): every ordered '
              'pair (i, j) of nodes with i not an ancestor of j; node i '
              'optionally retagged with a FREE non-core tag or one of 20 '
              'palette tags (quick: no retag or !!str only); aliased vs. expanded '
              'document'},
    {'fn': 'alias_reach', 'slices': [_slice_for('loose', 0, 0)],
     'quick': 100, 'thorough': 100, 'expect': 'REFUTED',
     'bound': 'reachability twin: an aliased document that loads'},
    {'fn': 'cycles', 'quick': 100, 'thorough': 100,
     'bound': '9 self-referential shapes x 7 document types: rejected with '
              'an error other than RecursionError/MemoryError'},
]
