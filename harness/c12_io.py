"""C12 -- every source and sink kind gives the same result.

Bounded end-to-end symbolic execution of the generated load / dump /
dump_json functions on solver-chosen values and documents: the text that
reaches a file name, a Path and an open text stream equals what the dumps
variant returns; a document loaded from a str, a Path, an open text stream
and an open binary stream gives equal results or the same error class.
"""
import io
import os
import pathlib
import shutil

import yaml

import yatiml
from vlib import values
from vlib.common import (SYMBOLIC, VERIF, install_stubs, note, pick, plain,
                         slice_no, tier)

install_stubs(composer=False)
QUICK = tier() == 'quick'

ENCODED = [
    'yatiml.dumper.DumpFunction.__call__, DumpJsonFunction.__call__, '
    'DumpsFunction.__call__, DumpsJsonFunction.__call__ and the four factory '
    'functions (each builds its own UserDumper)',
    'yatiml.loader.LoadFunction.__call__',
    'real files under /verif/work (pathlib.Path.open), io.StringIO, '
    'io.BytesIO; PyYAML Reader/Emitter on them']
ASSUMPTIONS = [
    'values: every alternative of every factor of the class models of '
    'vlib/values.py; documents: the YAML text of those values plus 12 '
    'invalid or odd documents; indent/ensure_ascii: (None, True), (2, False), '
    '(0, True)',
    'files are real files in a scratch directory, written and read with the '
    'interpreter\'s default text encoding (what the library itself uses); '
    'the binary stream carries UTF-8, UTF-8 with BOM or UTF-16 with BOM',
    '"same error" = same exception class (messages legitimately name the '
    'stream)',
    'this is the thinnest claim of the set: per path everything is concrete, '
    'the solver only chooses the case',
]

_WORK = os.path.join(os.environ.get('VERIF_OUT') or VERIF, 'work', 'C12',
                     str(os.getpid()))
_BAD_DOCS = ['', 'a: [1, 2', '- x\n- y\n', 'a: 1\na: 2\n', '{a: 1}',
             '? [a]\n: 1\n', '&a [*a]', 'x: !!int abc', '%YAML 1.1\n---\n1',
             'é: ü\n', '"\\ud83d\\ude42"', 'a: b: c',
             # a character YAML does not allow, early and beyond the
             # reader's first chunks (a str is checked as a whole, a stream
             # chunk by chunk while parsing)
             'a: "x\x07"\n', 'a: "' + 'x' * 9000 + '\x07"\nb: 1\n']


def _dirs():
    os.makedirs(_WORK, exist_ok=True)
    return _WORK


def _read(path):
    with open(path, 'r') as f:
        return f.read()


def _sinks(mi, f, x, opt):
    v = values.value(mi, f, x)
    if v is None:
        return None
    load, dumps, dumps_json, dump, dump_json = values.functions(mi)
    indent, ascii_ = pick([(None, True), (2, False), (0, True)], opt)
    d = _dirs()

    class Skip(Exception):
        pass

    def attempt(fn):
        """('text', what was produced) or ('refused', exception class); a
        value the string variant refuses must be refused by every sink
        variant too."""
        try:
            return ('text', fn())
        except UnicodeEncodeError:
            raise Skip()    # the (file system) encoding cannot hold the text
        except Exception as e:      # noqa
            return ('refused', type(e).__name__)

    def to_file(fn, path):
        def run():
            fn(path)
            return _read(str(path))
        return attempt(run)

    def to_stream(fn):
        def run():
            s = io.StringIO()
            fn(s)
            return s.getvalue()
        return attempt(run)

    try:
        want_y = attempt(lambda: dumps(v))
    except Skip:
        return None
    try:
        want_j = attempt(lambda: dumps_json(v, indent=indent,
                                            ensure_ascii=ascii_))
    except Skip:
        want_j = None
    got = {}
    try:
        got['yaml str path'] = to_file(lambda p: dump(v, p),
                                       os.path.join(d, 'a.yaml'))
        got['yaml Path'] = to_file(lambda p: dump(v, p),
                                   pathlib.Path(d) / 'b.yaml')
        got['yaml stream'] = to_stream(lambda s: dump(v, s))
        if want_j is not None:
            got['json str path'] = to_file(
                lambda p: dump_json(v, p, indent=indent, ensure_ascii=ascii_),
                os.path.join(d, 'a.json'))
            got['json Path'] = to_file(
                lambda p: dump_json(v, p, indent, ascii_),
                pathlib.Path(d) / 'b.json')
            got['json stream'] = to_stream(
                lambda s: dump_json(v, s, indent=indent, ensure_ascii=ascii_))
        # open text FILES with their own encodings (a stream that has an
        # `encoding` attribute); compared only when the text fits it
        for enc in ('latin-1', 'utf-16'):
            for kind, want in (('yaml', want_y), ('json', want_j)):
                if want is None or want[0] != 'text':
                    continue
                try:
                    want[1].encode(enc)
                except UnicodeEncodeError:
                    continue
                p5 = os.path.join(d, 'c.' + kind)

                def run(kind=kind, enc=enc, p5=p5):
                    with open(p5, 'w', encoding=enc, newline='') as fh:
                        if kind == 'yaml':
                            dump(v, fh)
                        else:
                            dump_json(v, fh, indent=indent,
                                      ensure_ascii=ascii_)
                    with open(p5, 'r', encoding=enc, newline='') as fh:
                        return fh.read()
                got['%s open file (%s)' % (kind, enc)] = attempt(run)
    except (Skip, UnicodeEncodeError):
        return None         # the file system encoding cannot hold the text
    finally:
        shutil.rmtree(d, ignore_errors=True)
    bad = {k: t for k, t in got.items()
           if t != (want_y if k.startswith('yaml') else want_j)}
    if not SYMBOLIC:
        note(model=(values.MODELS + values.DUMP_ONLY_MODELS)[mi][0],
             value=plain(v), dumps=want_y,
             dumps_json=want_j, differing=bad)
    return not bad


def sinks(f: int, x: int, opt: int) -> bool:
    """
    pre: 0 <= f < 10 and 0 <= x < 70 and 0 <= opt < 3
    post: __return__
    """
    if opt != 0 and x > 5:
        return True             # option sets 1, 2: first six alternatives
    r = _sinks(slice_no(0), f, x, opt)
    return True if r is None else r


def sinks_reach(f: int, x: int, opt: int) -> bool:
    """
    pre: 0 <= f < 10 and 0 <= x < 70 and 0 <= opt < 3
    post: __return__
    """
    r = _sinks(slice_no(0), f, x, opt)
    return not (r and f == 1 and x == 2 and opt == 1)


def _outcome(fn):
    try:
        return ('value', plain(fn(), False))
    except Exception as e:  # noqa
        return ('error', type(e).__name__)


def _sources(mi, f, x, bad, enc):
    load, dumps = values.functions(mi)[:2]
    if bad >= 0:
        if bad >= len(_BAD_DOCS) or f != 0 or x != 0:
            return None
        text = pick(_BAD_DOCS, bad)
    else:
        v = values.value(mi, f, x)
        if v is None:
            return None
        try:
            text = dumps(v)
        except (UnicodeEncodeError, yaml.YAMLError):
            return None
    d = _dirs()
    try:
        p = os.path.join(d, 'in.yaml')
        try:
            with open(p, 'w') as fh:
                fh.write(text)
            raw = text.encode(pick(['utf-8', 'utf-8-sig', 'utf-16'], enc))
        except UnicodeEncodeError:
            return None
        res = {'str': _outcome(lambda: load(text)),
               'Path': _outcome(lambda: load(pathlib.Path(p))),
               'text stream': _outcome(lambda: load(io.StringIO(text))),
               'binary stream': _outcome(lambda: load(io.BytesIO(raw)))}
        with open(p, 'r') as fh:
            res['open file'] = _outcome(lambda: load(fh))
        with open(p, 'rb') as fh:
            res['open binary file'] = _outcome(lambda: load(fh))
    finally:
        shutil.rmtree(d, ignore_errors=True)
    if not SYMBOLIC:
        note(text=text, outcomes=res)
    return len(set(map(repr, res.values()))) == 1


def sources(f: int, x: int, bad: int, enc: int) -> bool:
    """
    pre: 0 <= f < 10 and 0 <= x < 70 and -1 <= bad < 14 and 0 <= enc < 3
    post: __return__
    """
    if enc != 0 and x > 2:
        return True             # BOM encodings: first three alternatives
    if QUICK and x > 5:
        return True             # quick tier: first six alternatives
    r = _sources(slice_no(0), f, x, bad, enc)
    return True if r is None else r


CONDITIONS = [
    {'fn': 'sinks', 'slices': list(range(len(values.MODELS) + len(
        values.DUMP_ONLY_MODELS))), 'quick': 240,
     'thorough': 600,
     'bound': 'one slice per class model: every alternative of every factor '
              '(x 3 option sets for the first six); YAML and JSON; str path, Path, text stream '
              '(StringIO and open files encoded as Latin-1 and '
              'UTF-16 where the text fits) vs. the dumps variant; a value the dumps variant refuses (no representer, aliases in JSON) is refused by every sink variant'},
    {'fn': 'sinks_reach', 'slices': [0], 'quick': 60, 'thorough': 60,
     'expect': 'REFUTED', 'bound': 'reachability twin'},
    {'fn': 'sources', 'slices': list(range(len(values.MODELS))),
     'quick': 240, 'thorough': 600,
     'bound': 'one slice per class model: the dumped text of every '
              'alternative, and 14 invalid/odd documents (x 3 encodings of '
              'the binary stream for the first three); str, Path, StringIO, BytesIO, open text '
              'file, open binary file'},
]
