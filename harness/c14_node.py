"""C14 -- yatiml.Node accessors behave like an ordered map and a typed scalar.

Real code executed symbolically: yatiml.helpers.Node.{has_attribute,
has_attribute_type, get_attribute, set_attribute, remove_attribute,
rename_attribute, _Node__attr_index, is_scalar, is_mapping, is_sequence,
get_value, set_value, make_mapping, is_empty, seq_items,
remove_attributes_with_default_values}, yatiml.introspection.
defaulted_attributes.
"""
from collections import OrderedDict
from typing import List, Optional, Union

import yaml

import yatiml
from yatiml.exceptions import SeasoningError
from vlib.common import (P, T_BOOL, T_FLOAT, T_INT, T_MAP, T_NULL, T_SEQ,
                         T_STR, T_TS, excluded, install_stubs, mapping, note,
                         pick, scalar, seq, slice_no, tier)

install_stubs()
QUICK = tier() == 'quick'

ENCODED = [
    'yatiml.helpers.Node.has_attribute', 'Node.has_attribute_type',
    'Node.get_attribute', 'Node.set_attribute', 'Node.remove_attribute',
    'Node.rename_attribute', 'Node._Node__attr_index', 'Node.is_scalar',
    'Node.is_mapping', 'Node.is_sequence', 'Node.get_value',
    'Node.set_value', 'Node.make_mapping', 'Node.is_empty', 'Node.seq_items',
    'Node.remove_attributes_with_default_values',
    'yatiml.introspection.defaulted_attributes',
    'yaml.constructor.SafeConstructor.construct_yaml_int/float/bool/null '
    '(reference side of get_value-vs-load)']
ASSUMPTIONS = [
    'S1 node formatting stub',
    'mapping keys are the concrete distinct strings a, b_, d (the code only '
    'compares keys with ==); operation arguments are free strings of length '
    '<= 2 (so they can equal every key and also miss)',
    'rename_attribute onto another existing key is outside the property '
    '(distinct keys) and assumed away',
    'set_value is exercised on nodes carrying a tag:yaml.org,2002: tag; a node with '
    'a class tag keeps it by design (helpers.py comment) and is outside the '
    'claim',
    'float <-> str conversion is CPython (C); floats come from a palette',
]

KEYS = ['a', 'b_', 'd']
TYPS = [str, int, float, bool, None, list, dict]
CORE = [T_STR, T_INT, T_FLOAT, T_BOOL, T_NULL]
# starting tags for set_value: every tag of the YAML type repository is a
# built-in one, not a class tag
STARTS = CORE + ['tag:yaml.org,2002:timestamp', 'tag:yaml.org,2002:binary',
                 'tag:yaml.org,2002:set', 'tag:yaml.org,2002:omap',
                 'tag:yaml.org,2002:value', 'tag:yaml.org,2002:python/tuple',
                 'tag:yaml.org,2002:map', 'tag:yaml.org,2002:seq']


def _initial(n: int):
    # collections carry explicit tags: what makes a value a list or a dict
    # is its node kind, not its tag
    vals = [scalar(T_STR, 'v0'),
            mapping([(scalar(T_STR, 'r'), scalar(T_INT, '5'))], tag='!Circle'),
            seq([scalar(T_STR, 'i')], tag='tag:yaml.org,2002:omap')]
    items = [(scalar(T_STR, k), vals[i]) for i, k in enumerate(KEYS[:n])]
    return yatiml.Node(mapping(items))


def _vsig(v):
    if isinstance(v, yaml.ScalarNode):
        return ('scalar', v.tag, v.value)
    if isinstance(v, yaml.SequenceNode):
        return ('seq', v.tag, len(v.value))
    return ('map', v.tag, len(v.value))


def _view(node):
    return [(k.value, _vsig(v)) for k, v in node.yaml_node.value]


_SETVALS = ['new', 7, True, None, 1.5]
_SETSIGS = [('scalar', T_STR, 'new'), ('scalar', T_INT, '7'),
            ('scalar', T_BOOL, 'true'), ('scalar', T_NULL, ''),
            ('scalar', T_FLOAT, '1.5')]


def _typ_matches(sig, t) -> bool:
    kind, tag, _ = sig
    if t is list:
        return kind == 'seq'
    if t is dict:
        return kind == 'map'
    want = {str: T_STR, int: T_INT, float: T_FLOAT, bool: T_BOOL,
            None: T_NULL}[t]
    return tag == want


def _step(node, model, op: int, a: str, b: str, v: int):
    """Apply one operation to the real Node and to the association-list
    model.  Returns (model', ok)."""
    mkeys = [k for k, _ in model]
    if op == 0:
        return model, node.has_attribute(a) == (a in mkeys)
    if op == 1:
        try:
            got = node.get_attribute(a)
        except SeasoningError:
            return model, a not in mkeys
        if a not in mkeys:
            return model, False
        return model, _vsig(got.yaml_node) == dict(model)[a]
    if op == 2:
        if v >= 5:
            val = scalar('!Zz', 'n')
            sig = ('scalar', '!Zz', 'n')
        else:
            val, sig = pick(_SETVALS, v), pick(_SETSIGS, v)
        node.set_attribute(a, val)
        if a in mkeys:
            model = [(k, sig if k == a else s) for k, s in model]
        else:
            model = model + [(a, sig)]
        return model, True
    if op == 3:
        node.remove_attribute(a)
        return [(k, s) for k, s in model if k != a], True
    if op == 4:
        if b in mkeys and b != a:
            return model, True          # outside the property: keys distinct
        node.rename_attribute(a, b)
        return [((b if k == a else k), s) for k, s in model], True
    # op == 5
    t = pick(TYPS, v)
    want = (a in mkeys) and _typ_matches(dict(model)[a], t)
    return model, node.has_attribute_type(a, t) == want


def _run_ops(n, ops):
    node = _initial(n)
    model = [(k, s) for k, s in _view(node)]
    for i, (op, a, b, v) in enumerate(ops):
        model, ok = _step(node, model, op, a, b, v)
        if not ok or _view(node) != model:
            note(step=i, op=op, a=a, b=b, v=v, node_view=_view(node),
                 model_view=model)
            return False
    return True


def ops2(n: int, op1: int, a1: str, b1: str, v1: int,
         op2: int, a2: str, b2: str, v2: int) -> bool:
    """
    pre: 0 <= n <= 3 and 0 <= op1 < 6 and 0 <= op2 < 6
    pre: 0 <= v1 < 7 and 0 <= v2 < 7
    pre: len(a1) <= 2 and len(a2) <= 2 and len(b1) <= 2 and len(b2) <= 2
    post: __return__
    """
    s = slice_no(-1)
    if s >= 0 and (op1 != s // 6 or op2 != s % 6):
        return True
    if QUICK and n not in (0, 3):
        return True
    return _run_ops(n, [(op1, a1, b1, v1), (op2, a2, b2, v2)])


def ops2_reach(n: int, op1: int, a1: str, b1: str, v1: int,
               op2: int, a2: str, b2: str, v2: int) -> bool:
    """
    pre: 0 <= n <= 3 and 0 <= op1 < 6 and 0 <= op2 < 6
    pre: 0 <= v1 < 7 and 0 <= v2 < 7
    pre: len(a1) <= 2 and len(a2) <= 2 and len(b1) <= 2 and len(b2) <= 2
    post: __return__
    """
    s = slice_no(-1)
    if s >= 0 and (op1 != s // 6 or op2 != s % 6):
        return True
    ok = _run_ops(n, [(op1, a1, b1, v1), (op2, a2, b2, v2)])
    # witness: both ops really hit an existing key and the second is a rename
    hit = n == 3 and a1 == 'b_' and a2 == 'a' and b2 == 'zz'
    note(reached=hit)
    return not (ok and hit)


def ops3(n: int, op1: int, a1: str, b1: str, v1: int,
         op2: int, a2: str, b2: str, v2: int,
         op3: int, a3: str, b3: str, v3: int) -> bool:
    """
    pre: 0 <= n <= 3 and 0 <= op1 < 6 and 0 <= op2 < 6 and 0 <= op3 < 6
    pre: 0 <= v1 < 7 and 0 <= v2 < 7 and 0 <= v3 < 7
    pre: len(a1) <= 2 and len(a2) <= 2 and len(b1) <= 2 and len(b2) <= 2
    pre: len(a3) <= 2 and len(b3) <= 2
    post: __return__
    """
    s = slice_no(-1)
    if s >= 0 and (op1 != s // 6 or op2 != s % 6):
        return True
    if n not in (0, 3):
        return True
    # three operations: set_attribute with 3 value kinds (str, int, a node),
    # has_attribute_type with 3 types (str, int, list)
    for op, v in ((op1, v1), (op2, v2), (op3, v3)):
        if op == 2 and v not in (0, 1, 5):
            return True
        if op == 5 and v not in (0, 1, 5):
            return True
    return _run_ops(n, [(op1, a1, b1, v1), (op2, a2, b2, v2),
                        (op3, a3, b3, v3)])


# --------------------------------------------------------------------------
def _classify(kind, tag, t) -> bool:
    if kind == 0:
        y = scalar(tag, 'x')
    elif kind == 1:
        y = seq([], tag=tag)
    else:
        y = mapping([], tag=tag)
    node = yatiml.Node(y)
    preds = [node.is_scalar(), node.is_sequence(), node.is_mapping()]
    if [bool(p) for p in preds] != [kind == 0, kind == 1, kind == 2]:
        note(kind=kind, tag=tag, preds=preds)
        return False
    typ = pick([str, int, float, bool, None], t)
    want = kind == 0 and tag == pick(CORE, t)
    got = node.is_scalar(typ)
    note(kind=kind, tag=tag, typ=typ, got=got, want=want)
    return got == want


def classify(kind: int, tag: str, t: int) -> bool:
    """
    pre: 0 <= kind < 3 and 0 <= t < 5
    pre: len(tag) <= 24
    post: __return__
    """
    return _classify(kind, tag, t)


def classify_reach(kind: int, tag: str, t: int) -> bool:
    """
    pre: 0 <= kind < 3 and 0 <= t < 5
    pre: len(tag) <= 24
    post: __return__
    """
    ok = _classify(kind, tag, t)
    return not (ok and kind == 0 and t == 3 and tag == T_BOOL)


# --------------------------------------------------------------------------
def _setget_int(start, v) -> bool:
    node = yatiml.Node(scalar(pick(STARTS, start), 'old'))
    node.set_value(v)
    got = node.get_value()
    note(v=v, got=got, tag=node.yaml_node.tag)
    return (type(got) is int and got == v and node.is_scalar(int)
            and not node.is_scalar(str))


def setget_int(start: int, v: int) -> bool:
    """
    pre: 0 <= start < 13
    pre: -50 <= v <= 50
    post: __return__
    """
    return _setget_int(start, v)


def setget_str(start: int, v: str) -> bool:
    """
    pre: 0 <= start < 13
    pre: len(v) <= 6
    post: __return__
    """
    node = yatiml.Node(scalar(pick(STARTS, start), 'old'))
    node.set_value(v)
    got = node.get_value()
    note(v=v, got=got, tag=node.yaml_node.tag)
    return type(got) is str and got == v and node.is_scalar(str)


def setget_other(start: int, which: int) -> bool:
    """
    pre: 0 <= start < 13
    pre: 0 <= which < 9
    post: __return__
    """
    v = pick([True, False, None, 0.0, 1.5, -2.25, 1e300, float('inf'),
              float('-inf')], which)
    node = yatiml.Node(scalar(pick(STARTS, start), 'old'))
    node.set_value(v)
    got = node.get_value()
    note(v=v, got=got, tag=node.yaml_node.tag)
    if v is None:
        return got is None and node.is_scalar(None)
    return type(got) is type(v) and got == v and node.is_scalar(type(v))


def setget_reach(start: int, v: int) -> bool:
    """
    pre: 0 <= start < 13
    pre: -50 <= v <= 50
    post: __return__
    """
    ok = _setget_int(start, v)
    return not (ok and v == -37 and start == 3)


# --------------------------------------------------------------------------
# get_value() on a parsed scalar == what a load would construct
_ALPHA = '01789_:.-+xbeEaf'


def _loader():
    return yatiml.load_function().loader('')


_LDR = _loader()
_REFS = {
    T_INT: yaml.constructor.SafeConstructor.construct_yaml_int,
    T_FLOAT: yaml.constructor.SafeConstructor.construct_yaml_float,
    T_BOOL: yaml.constructor.SafeConstructor.construct_yaml_bool,
    T_NULL: yaml.constructor.SafeConstructor.construct_yaml_null,
}


def _getvalue_agrees(text: str) -> bool:
    tag = _LDR.resolve(yaml.ScalarNode, text, (True, False))
    if tag not in _REFS:
        return True
    node = scalar(tag, text)
    try:
        want = _REFS[tag](_LDR, node)
    except Exception as e:   # noqa  construction itself fails: C08's problem
        note(text=text, tag=tag, construct_raises=type(e).__name__)
        return True
    try:
        got = yatiml.Node(node).get_value()
    except Exception as e:  # noqa
        note(text=text, tag=tag, load_constructs=want,
             get_value_raises='%s: %s' % (type(e).__name__, e))
        return False
    note(text=text, tag=tag, load_constructs=want, get_value=got)
    if want != want:
        return got != got
    return type(got) is type(want) and got == want


def _gv(c) -> bool:
    s = slice_no(-1)
    if s >= 0 and c[0] != s:
        return True
    text = ''.join([pick(_ALPHA, x) for x in c])
    return _getvalue_agrees(text)


def getvalue_vs_load(c: List[int]) -> bool:
    """
    pre: 1 <= len(c) <= 4
    pre: all(0 <= x < 16 for x in c)
    post: __return__
    """
    return _gv(c)


def getvalue_vs_load3(c: List[int]) -> bool:
    """
    pre: 1 <= len(c) <= 3
    pre: all(0 <= x < 16 for x in c)
    post: __return__
    """
    return _gv(c)


_WORDS = ['true', 'True', 'TRUE', 'false', 'False', 'FALSE', 'null', 'Null',
          'NULL', '~', '', '.inf', '-.inf', '+.INF', '.nan', '.NaN', '1e3',
          '1.5e-3', '+12', '-0', '0o17', '0x1F', '0b101', '017', '1_000',
          '190:20:30', '1:30', '6.8523015e+5', '685.230_15e+03', '-.5',
          '2001-12-14', '12e03', '1__0', '1_', '0.', '.0', '+.5e+1']


def _getvalue_words(w) -> bool:
    return _getvalue_agrees(pick(_WORDS, w))


def getvalue_words(w: int) -> bool:
    """
    pre: 0 <= w < 37
    post: __return__
    """
    return _getvalue_words(w)


def getvalue_reach(w: int) -> bool:
    """
    pre: 0 <= w < 37
    post: __return__
    """
    ok = _getvalue_words(w)
    return not (ok and pick(_WORDS, w) == '1e3')


# --------------------------------------------------------------------------
# remove_attributes_with_default_values
_DEFAULTS = [None, 0, 5, -3, 0.0, 1.5, True, False, '', 'red', '5', 'true']
_NODEVALS = [(T_NULL, ''), (T_NULL, 'null'), (T_INT, '0'), (T_INT, '5'),
             (T_INT, '-3'), (T_FLOAT, '0.0'), (T_FLOAT, '1.5'),
             (T_FLOAT, '5.0'), (T_BOOL, 'true'), (T_BOOL, 'false'),
             (T_STR, ''), (T_STR, 'red'), (T_STR, '5'), (T_STR, 'true'),
             (T_INT, '7'), (T_STR, 'blue')]


def _py(tag, text):
    if tag == T_NULL:
        return None
    if tag == T_INT:
        return int(text)
    if tag == T_FLOAT:
        return float(text)
    if tag == T_BOOL:
        return text == 'true'
    return text


def _same(value, default) -> bool:
    """value (what the attribute holds) equals the default, as Python values
    of the built-in scalar types; bool is not int here."""
    if value is None or default is None:
        return value is None and default is None
    if isinstance(value, bool) or isinstance(default, bool):
        return (isinstance(value, bool) and isinstance(default, bool)
                and value == default)
    if isinstance(value, str) or isinstance(default, str):
        return (isinstance(value, str) and isinstance(default, str)
                and value == default)
    return value == default


def _mk_class(d1, override, use_override, with_extra=False):
    if with_extra:
        # _yatiml_extra, itself with a default, after the defaulted ones
        class K:
            def __init__(self, r: int,
                         x: Optional[Union[int, float, str, bool]] = d1,
                         y: Optional[int] = None,
                         _yatiml_extra: Optional[OrderedDict] = None
                         ) -> None:
                self.r, self.x, self.y = r, x, y
                self._yatiml_extra = _yatiml_extra
    else:
        class K:
            def __init__(self, r: int,
                         x: Optional[Union[int, float, str, bool]] = d1,
                         y: Optional[int] = None) -> None:
                self.r, self.x, self.y = r, x, y
    if use_override:
        K._yatiml_defaults = {'x': override}
    return K


def _remove_defaults(e, via_ov, nv_x, nv_y, has_x, extra) -> bool:
    s = slice_no(-1)
    if s >= 0 and nv_x != s:
        return True
    EFF = pick(_DEFAULTS, e)
    NX, NY = pick(_NODEVALS, nv_x), pick(_NODEVALS, nv_y)
    # the effective default of x comes from the signature or from
    # _yatiml_defaults (then the signature default is something else)
    K = _mk_class('other' if via_ov else EFF, EFF, via_ov, extra)
    items = [(scalar(T_STR, 'r'), scalar(T_INT, '1'))]
    if has_x:
        items.append((scalar(T_STR, 'x'), scalar(*NX)))
    items.append((scalar(T_STR, 'y'), scalar(*NY)))
    if extra:
        items.append((scalar(T_STR, 'zz'), seq([])))
    node = yatiml.Node(mapping(items))
    want = []
    for k, v in items:
        if k.value == 'x' and _same(_py(*NX), EFF):
            continue
        if k.value == 'y' and _same(_py(*NY), None):
            continue
        want.append(k.value)
    try:
        node.remove_attributes_with_default_values(K)
    except Exception as ex:  # noqa
        note(default_x=EFF, x=NX if has_x else None, y=NY,
             raised='%s: %s' % (type(ex).__name__, ex))
        return False
    got = [k.value for k, _ in node.yaml_node.value]
    note(default_x=EFF, default_y=None, x=NX if has_x else None, y=NY,
         kept=got, expected_kept=want)
    return got == want


def remove_defaults(e: int, via_ov: bool, nv_x: int, nv_y: int, has_x: bool,
                    extra: bool) -> bool:
    """
    pre: 0 <= e < 12 and 0 <= nv_x < 16 and 0 <= nv_y < 3
    post: __return__
    """
    return _remove_defaults(e, via_ov, nv_x, nv_y, has_x, extra)


def remove_defaults_reach(e: int, via_ov: bool, nv_x: int, nv_y: int,
                          has_x: bool, extra: bool) -> bool:
    """
    pre: 0 <= e < 12 and 0 <= nv_x < 16 and 0 <= nv_y < 3
    post: __return__
    """
    ok = _remove_defaults(e, via_ov, nv_x, nv_y, has_x, extra)
    return not (ok and has_x and via_ov and e == 2 and nv_x == 3)


# --------------------------------------------------------------------------
def misc(n: int, kind: int) -> bool:
    """
    pre: 0 <= n <= 3 and 0 <= kind < 2
    post: __return__
    """
    items = [scalar(T_STR, 'i%d' % i) for i in range(n)]
    if kind == 0:
        node = yatiml.Node(seq(items))
        its = node.seq_items()
        if len(its) != n or any(x.yaml_node is not items[i]
                                for i, x in enumerate(its)):
            return False
    else:
        node = yatiml.Node(mapping([(scalar(T_STR, 'k%d' % i), it)
                                    for i, it in enumerate(items)]))
    if node.is_empty() != (n == 0):
        return False
    node.make_mapping()
    return (node.is_mapping() and node.is_empty()
            and node.yaml_node.tag == T_MAP)


CONDITIONS = [
    {'fn': 'ops2', 'slices': list(range(36)), 'quick': 90, 'thorough': 400,
     'twin': None,
     'bound': 'all sequences of 2 operations from {has, get, set (9 value '
              'kinds), remove, rename, has_attribute_type (7 types)} on a '
              'mapping of n<=3 distinct keys (quick tier: n in {0,3}), arguments free strings len<=2; '
              'one slice per pair of operation kinds'},
    {'fn': 'ops2_reach', 'slices': [16], 'quick': 60, 'thorough': 60,
     'expect': 'REFUTED', 'bound': 'reachability twin of ops2'},
    {'fn': 'ops3', 'slices': list(range(36)), 'quick': None,
     'thorough': 900,
     'bound': 'all sequences of 3 operations on a mapping of 0 or 3 keys '
              '(set with 3 value kinds, has_attribute_type with 3 types); '
              'one slice per pair of first two operations'},
    {'fn': 'classify', 'quick': 60, 'thorough': 120,
     'twin': 'classify_reach',
     'bound': 'node kind in {scalar, seq, map} x FREE tag string (len<=24) x '
              '5 scalar types'},
    {'fn': 'setget_int', 'quick': 60, 'thorough': 120, 'twin': 'setget_reach',
     'bound': 'int |v| <= 50 (str(int)/int(str) are realised by the engine, so the range is enumerated), 13 starting tags (core scalar tags and other tags of the YAML type repository)'},
    {'fn': 'setget_str', 'quick': 60, 'thorough': 120,
     'bound': 'free str len<=6, 13 starting tags (core scalar tags and other tags of the YAML type repository)'},
    {'fn': 'setget_other', 'quick': 60, 'thorough': 60,
     'bound': 'bool, None, 6 floats incl. inf (palette), 13 starting tags (core scalar tags and other tags of the YAML type repository)'},
    {'fn': 'getvalue_words', 'quick': 90, 'thorough': 90,
     'twin': 'getvalue_reach',
     'bound': '37 spellings from the YAML 1.1/1.2 scalar grammars'},
    {'fn': 'getvalue_vs_load3', 'slices': list(range(16)), 'quick': 100,
     'thorough': None,
     'bound': 'every string of length 1..3 over the alphabet '
              '01789_:.-+xbeEaf that the loader resolves to '
              'int/float/bool/null'},
    {'fn': 'getvalue_vs_load', 'slices': list(range(16)), 'quick': None,
     'thorough': 600,
     'bound': 'every string of length 1..4 over the alphabet '
              '01789_:.-+xbeEaf that the loader resolves to '
              'int/float/bool/null'},
    {'fn': 'remove_defaults', 'slices': list(range(16)), 'quick': 60,
     'thorough': 400, 'twin': None,
     'bound': '12 defaults (None, ints, floats, bools, strs) of an optional '
              'parameter, given in the signature or by _yatiml_defaults, x 16 '
              'node values (tag, spelling) x attribute present/absent x a '
              'second defaulted attribute (None) x an unrelated extra key '
              'together with a defaulted _yatiml_extra parameter'},
    {'fn': 'remove_defaults_reach', 'slices': [3], 'quick': 60,
     'thorough': 60, 'expect': 'REFUTED',
     'bound': 'reachability twin of remove_defaults'},
    {'fn': 'misc', 'quick': 30, 'thorough': 30,
     'bound': 'seq_items/is_empty/make_mapping on collections of n<=3'},
]
