"""C07 -- JSON dumps are valid JSON with the same data under every formatting
option.

(1) ONE STEP of the event-driven emitter from an ARBITRARY valid state
    (symbolic state stack, indent counters, options, event) against the
    transition relation of a JSON pushdown printer: covers event histories of
    any length by induction.
(2) whole documents through the public dumps_json / dump_json functions:
    strict RFC 8259 validity and content, ASCII-only/compact defaults.
(3) reload with the matching load function.
"""
import datetime
import json
from collections import OrderedDict
from typing import List

import yaml
from yaml.events import (AliasEvent, DocumentEndEvent, DocumentStartEvent,
                         MappingEndEvent, MappingStartEvent, ScalarEvent,
                         SequenceEndEvent, SequenceStartEvent)

import yatiml
import yatiml.dumper as ydumper
try:
    from yatiml.dumper import JsonDumperState as _RealSt
except ImportError:         # representation changed: see STEP_MODEL_OK
    _RealSt = None
from vlib import values
from vlib.common import (P, SYMBOLIC, T_BOOL, T_FLOAT, T_INT, T_NULL, T_STR,
                         T_TS, install_stubs, note, pick, plain, slice_no, tier)

install_stubs(composer=False)
QUICK = tier() == 'quick'

ENCODED = [
    'yatiml.dumper.Dumper.emit_json, Dumper._do_endline, Dumper.__init__, '
    'Dumper.emit', 'yatiml.dumper.dumps_json_function/DumpsJsonFunction.'
    '__call__, dump_json_function/DumpJsonFunction.__call__',
    'PyYAML SafeRepresenter + Serializer (event stream fed to emit_json)',
    'the load pipeline on the JSON text (condition reload)']
ASSUMPTIONS = [
    'one-step condition: stub S7, json.dumps -> a marker recording its '
    'arguments (string escaping itself is the stdlib\'s); representation '
    'invariant on the pre-state: bottom of the stack is NONE, every other '
    'entry is a sequence or mapping state, an end event arrives only when '
    'the innermost open collection has the matching kind and a mapping is '
    'not waiting for a value (well-nested event streams, which is what '
    'PyYAML\'s serializer produces); the transition reads only the top of '
    'the stack: top state over all 5 (or NONE), one entry below it from '
    '{SEQUENCE, MAPPING_VALUE} to check the frame, 0 <= _cur_indent <= 4, '
    'indent in {None, 0, 1, 2, 8}; scalar values from a palette of 5',
    'whole documents: 24 tree shapes (<= 5 nodes, depth <= 3, empty '
    'containers also after mapping values) x indent in {None, 0..8} x '
    'ensure_ascii, leaves from a palette of 30 (ints, bools, None, finite '
    'floats, strings with quotes, backslashes, control characters, non-BMP, '
    'a lone surrogate, a date)',
    'the amount of indentation is not part of the property (indent=0 and 1 '
    'indent by 2, PyYAML\'s best_indent)',
    'reload: values of the class models of vlib/values.py without dates, '
    'non-finite floats or strings outside printable BMP',
]


# ------------------------------------------------------------ (1) one step
class Sink:
    def __init__(self):
        self.parts = []

    def write(self, s):
        self.parts.append(s)


_DUMPER = yatiml.dumps_json_function().dumper
# The one-step conditions describe the emitter's state by the names the
# implementation uses.  If a tree represents that state differently, the
# one-step model does not apply to it: those conditions are reported as
# SKIPPED (inconclusive) and the whole-document conditions, which use the
# public API only, still decide the property.
_ST_NAMES = ('NONE', 'SEQUENCE', 'SEQUENCE_FIRST', 'MAPPING_KEY',
             'MAPPING_KEY_FIRST', 'MAPPING_VALUE')
STEP_MODEL_OK = (_RealSt is not None
                 and all(hasattr(_RealSt, n) for n in _ST_NAMES)
                 and len(list(_RealSt)) == len(_ST_NAMES))


class _NoSt:
    NONE = SEQUENCE = SEQUENCE_FIRST = MAPPING_KEY = MAPPING_KEY_FIRST = \
        MAPPING_VALUE = None


St = _RealSt if STEP_MODEL_OK else _NoSt
_STATES = [St.SEQUENCE, St.SEQUENCE_FIRST, St.MAPPING_KEY,
           St.MAPPING_KEY_FIRST, St.MAPPING_VALUE]
_TAGS = [T_STR, T_NULL, T_BOOL, T_TS, T_INT, T_FLOAT]


def _marker(value, ensure_ascii=True, **kw):
    return '<json.dumps %r ascii=%r>' % (value, ensure_ascii)


def _event(ev, tsel, value):
    if ev == 0:
        return ScalarEvent(None, pick(_TAGS, tsel), (True, False), value)
    if ev == 1:
        return SequenceStartEvent(None, None, True)
    if ev == 2:
        return MappingStartEvent(None, None, True)
    if ev == 3:
        return SequenceEndEvent()
    if ev == 4:
        return MappingEndEvent()
    if ev == 5:
        return DocumentEndEvent()
    if ev == 6:
        return DocumentStartEvent()
    return AliasEvent('id001')


def _ref_step(stack, cur, req, best, kvsep, allow_unicode, ev, tag, value):
    """Reference transition: (text written, new stack, new cur_indent) or
    'raise'."""
    def endline(ind):
        return '' if req is None else '\n' + ' ' * ind
    if ev == 7:
        return 'raise'
    if ev in (3, 4):
        cur2 = cur - best
        return (endline(cur2) + (']' if ev == 3 else '}'), stack[:-1], cur2)
    if ev == 5:
        return (endline(cur), stack, cur)
    top = stack[-1]
    out = ''
    if top in (St.SEQUENCE, St.MAPPING_KEY):
        out += ',' + endline(cur)
    elif top == St.MAPPING_VALUE:
        out += kvsep
    new = list(stack)
    cur2 = cur
    if ev == 1:
        cur2 = cur + best
        out += '[' + endline(cur2)
        push = St.SEQUENCE_FIRST
    elif ev == 2:
        cur2 = cur + best
        out += '{' + endline(cur2)
        push = St.MAPPING_KEY_FIRST
    else:
        push = None
        if ev == 0:
            if tag in (T_STR, T_TS):
                out += _marker(value, not allow_unicode)
            elif tag == T_NULL:
                out += 'null'
            elif tag == T_BOOL:
                out += value.lower()
            else:
                out += value
    nxt = {St.SEQUENCE_FIRST: St.SEQUENCE,
           St.MAPPING_KEY_FIRST: St.MAPPING_VALUE,
           St.MAPPING_KEY: St.MAPPING_VALUE,
           St.MAPPING_VALUE: St.MAPPING_KEY}
    if top in nxt:
        new[-1] = nxt[top]
    if push is not None:
        new.append(push)
    return (out, new, cur2)


def _step(depth, s1, s2, s3, cur, req, allow_unicode, ev, tsel, value):
    # s1 = the state on top (depth >= 1); s2 = the one below it (depth == 2)
    stack = [St.NONE]
    if depth == 2:
        stack.append(pick([St.SEQUENCE, St.MAPPING_VALUE, St.SEQUENCE_FIRST,
                           St.MAPPING_KEY, St.MAPPING_KEY_FIRST], s2))
    if depth >= 1:
        stack.append(pick(_STATES, s1))
    top = stack[-1]
    # representation invariant (well-nested event streams)
    if ev == 3 and top not in (St.SEQUENCE, St.SEQUENCE_FIRST):
        return None
    if ev == 4 and top not in (St.MAPPING_KEY, St.MAPPING_KEY_FIRST):
        return None
    if ev in (5, 6) and depth != 0:
        return None
    if depth == 0 and ev in (3, 4):
        return None
    indent = None if req < 0 else req
    sink = Sink()
    d = _DUMPER(sink, None, None, None, indent, None, allow_unicode, None,
                None, None, None, None, None, False)
    d._json_state = list(stack)
    d._cur_indent = cur
    real_dumps = ydumper.json.dumps
    ydumper.json.dumps = _marker
    try:
        want = _ref_step(stack, cur, indent, d.best_indent,
                         ': ' if indent is not None else ':',
                         allow_unicode, ev, pick(_TAGS, tsel), value)
        try:
            d.emit_json(_event(ev, tsel, value))
            got = (''.join(sink.parts), list(d._json_state), d._cur_indent)
        except RuntimeError:
            got = 'raise'
    finally:
        ydumper.json.dumps = real_dumps
    if not SYMBOLIC:
        note(stack=[x.name for x in stack], cur_indent=cur, indent=indent,
             allow_unicode=allow_unicode, event=ev, tag=pick(_TAGS, tsel),
             value=value, got=repr(got), expected=repr(want))
    return got == want


def step(depth: int, s1: int, s2: int, s3: int, cur: int, req: int,
         allow_unicode: bool, ev: int, tsel: int, vs: int) -> bool:
    """
    pre: 0 <= depth <= 2 and 0 <= s1 < 5 and 0 <= s2 < 5 and s3 == 0
    pre: 0 <= cur <= 6 and -1 <= req <= 8 and 0 <= ev < 8
    pre: 0 <= tsel < 6 and 0 <= vs < 5
    post: __return__
    """
    s = slice_no(-1)
    if s >= 0 and ev != s:
        return True
    if depth < 2 and s2 != 0:
        return True
    if depth < 1 and s1 != 0:
        return True
    if ev != 0 and (tsel != 0 or vs != 0):
        return True
    if QUICK and (req not in (-1, 0, 1, 2, 8) or s2 > 1 or cur > 4):
        return True
    if ev == 0:
        if cur not in (0, 2) or req not in (-1, 2) or s2 > 1:
            return True
        # tag x value: strings/timestamps with every value, the other tags
        # with the one value that makes sense for them
        if tsel >= 1 and tsel != 3 and vs != [0, 0, 2, 0, 3, 3][tsel]:
            return True
    # scalar values only pass through (or are lower-cased): a palette
    value = pick(['', 'aB', 'TRUE', '1.5', 'x"y'], vs)
    r = _step(depth, s1, s2, s3, cur, req, allow_unicode, ev, tsel, value)
    return True if r is None else r


def step_reach(depth: int, s1: int, s2: int, s3: int, cur: int, req: int,
               allow_unicode: bool, ev: int, tsel: int, vs: int) -> bool:
    """
    pre: 0 <= depth <= 2 and 0 <= s1 < 5 and 0 <= s2 < 5 and s3 == 0
    pre: 0 <= cur <= 6 and -1 <= req <= 8 and 0 <= ev < 8
    pre: 0 <= tsel < 6 and 0 <= vs < 5
    post: __return__
    """
    if ev != 2 or tsel != 0 or vs != 0:
        return True
    r = _step(depth, s1, s2, s3, cur, req, allow_unicode, ev, tsel, '')
    # witness: an empty mapping opened after a mapping value, indent 2
    return not (r and depth == 2 and s1 == 4 and req == 2)


# ------------------------------------------------------- (2) whole documents
LEAVES = [0, 1, -7, 10 ** 20, True, False, None, 1.5, -0.0, 1e17, 1e-7,
          5e-324, 0.1, 'a', '', '"', '\\', 'a"b\\c', '\n', '\t\r\x00\x1f',
          '\x7f', 'é', ' ', '\U0001f642', '\ud800', '</script>',
          ' ', 'null', '1e5', datetime.date(2001, 12, 14)]
L = '__leaf__'
SHAPES = [L, [], {}, [L], [L, L], {'k': L}, {'k': L, 'j': L}, [[]], [{}],
          {'k': []}, {'k': {}}, [[], []], [{}, L], {'k': [], 'j': L},
          {'k': {'k': L}}, [[L]], [L, [L, L]], {'k': [L, {'k': L}]},
          [[[]]], {'k': {'k': {}}}, [L, {}, L], {'k': {}, 'j': []},
          [{'k': L}, {'k': L}], {L: 1}]


def _fill(shape, leaf):
    if shape is L or shape == L:
        if isinstance(leaf, datetime.date):
            # a fresh object per position: the value must be tree-shaped
            return datetime.date(leaf.year, leaf.month, leaf.day)
        return leaf
    if isinstance(shape, list):
        return [_fill(x, leaf) for x in shape]
    if not isinstance(shape, dict):
        return shape
    return OrderedDict((('leafkey' if k == L and not isinstance(leaf, str)
                         else leaf if k == L else k), _fill(v, leaf))
                       for k, v in shape.items())


def _json_projection(v):
    if isinstance(v, (datetime.date, datetime.datetime)):
        return v.isoformat()
    if isinstance(v, list):
        return [_json_projection(x) for x in v]
    if isinstance(v, dict):
        return OrderedDict((k, _json_projection(x)) for k, x in v.items())
    return v


class _Dup(Exception):
    pass


def _pairs(ps):
    d = OrderedDict()
    for k, v in ps:
        if k in d:
            raise _Dup(k)
        d[k] = v
    return d


def _reject(c):
    raise ValueError('constant ' + c)


def _strict_loads(text):
    return json.loads(text, parse_constant=_reject, object_pairs_hook=_pairs)


def _outside_strings(text):
    """The text with every JSON string literal removed."""
    out, i, n = [], 0, len(text)
    while i < n:
        if text[i] == '"':
            i += 1
            while i < n and text[i] != '"':
                i += 2 if text[i] == '\\' else 1
            i += 1
        else:
            out.append(text[i])
            i += 1
    return ''.join(out)


def _eq_json(a, b):
    if isinstance(a, dict) and isinstance(b, dict):
        return list(a) == list(b) and all(_eq_json(a[k], b[k]) for k in a)
    if isinstance(a, list) and isinstance(b, list):
        return len(a) == len(b) and all(_eq_json(x, y)
                                        for x, y in zip(a, b))
    if isinstance(a, bool) or isinstance(b, bool):
        return a is b
    if isinstance(a, (int, float)) and isinstance(b, (int, float)):
        return a == b
    return type(a) is type(b) and a == b


_DUMPS_JSON = yatiml.dumps_json_function()


def _check_text(text, value, indent, ensure_ascii):
    try:
        parsed = _strict_loads(text.rstrip('\n') if indent is not None
                               else text)
    except (ValueError, _Dup) as e:
        if not SYMBOLIC:
            note(not_strict_json=str(e)[:200])
        return False
    if not _eq_json(parsed, _json_projection(value)):
        if not SYMBOLIC:
            note(parsed=repr(parsed)[:300])
        return False
    outside = _outside_strings(text)
    if indent is None and any(c in ' \t\r\n' for c in outside):
        return False                    # compact by default
    if ensure_ascii and any(ord(c) > 127 for c in text):
        return False
    if not ensure_ascii:
        # non-ASCII characters of the strings appear verbatim
        def strs(v):
            if isinstance(v, str):
                yield v
            elif isinstance(v, list):
                for x in v:
                    yield from strs(x)
            elif isinstance(v, dict):
                for k, x in v.items():
                    yield from strs(k)
                    yield from strs(x)
        for s in strs(value):
            for ch in s:
                if ord(ch) > 127 and not 0xD800 <= ord(ch) <= 0xDFFF \
                        and ch not in text:
                    return False
    # whitespace only next to structural characters / at line starts
    o = outside.replace('\n', ' ')
    for tok in o.split(' '):
        pass
    return True


def _whole(sh, lf, ind, ensure_ascii):
    value = _fill(pick(SHAPES, sh), pick(LEAVES, lf))
    indent = None if ind < 0 else ind
    try:
        text = _DUMPS_JSON(value, indent=indent, ensure_ascii=ensure_ascii)
    except (UnicodeEncodeError, yaml.YAMLError):
        return None
    if not SYMBOLIC:
        note(value=repr(value), indent=indent, ensure_ascii=ensure_ascii,
             text=text)
    return _check_text(text, value, indent, ensure_ascii)


def whole_shapes(sh: int, ind: int, ensure_ascii: bool) -> bool:
    """
    pre: 0 <= sh < 24 and -1 <= ind <= 8
    post: __return__
    """
    r = _whole(sh, 13, ind, ensure_ascii)
    return True if r is None else r


def whole_leaves(sh: int, lf: int, ind: int, ensure_ascii: bool) -> bool:
    """
    pre: 0 <= sh < 24 and 0 <= lf < 30 and -1 <= ind <= 8
    post: __return__
    """
    if ind not in (-1, 0, 2):
        return True
    if QUICK and sh not in (0, 3, 5, 23, 17):
        return True
    s = slice_no(-1)
    if s >= 0 and sh % 4 != s:
        return True
    r = _whole(sh, lf, ind, ensure_ascii)
    return True if r is None else r


def whole_reach(sh: int, ind: int, ensure_ascii: bool) -> bool:
    """
    pre: 0 <= sh < 24 and -1 <= ind <= 8
    post: __return__
    """
    r = _whole(sh, 13, ind, ensure_ascii)
    return not (r and sh == 21 and ind == 4)


# ------------------------------------- (2b) the dump_json sinks and histories
_DUMP_JSON = yatiml.dump_json_function()


class _FailSink:
    """A text sink whose k-th write fails."""

    def __init__(self, k):
        self.k = k

    def write(self, data):
        if self.k <= 0:
            raise OSError('sink full')
        self.k -= 1
        return len(data)


def _abort_one(kind, k):
    """A JSON dump that starts and does not finish."""
    shared = ['s']
    try:
        if kind == 1:           # alias in the middle of a document
            _DUMPS_JSON({'a': {'b': [1, shared]}, 'c': shared})
        elif kind == 2:         # the same through the sink variant
            import io
            _DUMP_JSON([{'x': [shared, shared]}], io.StringIO())
        elif kind == 3:         # the sink fails on its k-th write
            _DUMP_JSON({'a': [1, {'b': [2, 3]}], 'c': 'd'}, _FailSink(k),
                       indent=2)
    except (RuntimeError, OSError):
        pass


def _whole_sink(sh, lf, ind, ensure_ascii, abort, k):
    import io
    value = _fill(pick(SHAPES, sh), pick(LEAVES, lf))
    indent = None if ind < 0 else ind
    _abort_one(abort, k)
    try:
        s = io.StringIO()
        _DUMP_JSON(value, s, indent=indent, ensure_ascii=ensure_ascii)
        text = s.getvalue()
        text2 = _DUMPS_JSON(value, indent=indent, ensure_ascii=ensure_ascii)
    except (UnicodeEncodeError, yaml.YAMLError):
        return None
    if not SYMBOLIC:
        note(value=repr(value), indent=indent, ensure_ascii=ensure_ascii,
             after_aborted_dump=abort, failing_write=k, dump_json_text=text,
             dumps_json_text=text2)
    return (_check_text(text, value, indent, ensure_ascii)
            and _check_text(text2, value, indent, ensure_ascii))


def whole_sinks(sh: int, lf: int, ind: int, ensure_ascii: bool, abort: int,
                k: int) -> bool:
    """
    pre: 0 <= sh < 24 and 0 <= lf < 30 and -1 <= ind <= 8
    pre: 0 <= abort <= 3 and 0 <= k <= 12
    post: __return__
    """
    if ind not in (-1, 2) or lf not in (13, 21, 23, 29):
        return True
    if abort != 3 and k != 0:
        return True
    if QUICK and (sh % 3 != 2 or k > 6):
        return True
    s = slice_no(-1)
    if s >= 0 and abort != s:
        return True
    r = _whole_sink(sh, lf, ind, ensure_ascii, abort, k)
    return True if r is None else r


def whole_sinks_reach(sh: int, lf: int, ind: int, ensure_ascii: bool,
                      abort: int, k: int) -> bool:
    """
    pre: 0 <= sh < 24 and 0 <= lf < 30 and -1 <= ind <= 8
    pre: 0 <= abort <= 3 and 0 <= k <= 12
    post: __return__
    """
    if ind != 2 or lf != 21 or sh != 17 or ensure_ascii:
        return True
    r = _whole_sink(sh, lf, ind, ensure_ascii, abort, k)
    return not (r and abort == 3 and k == 5)


# ------------------------------------------------------------ (3) reload
def _printable_bmp(v):
    if isinstance(v, str):
        return all(ch.isprintable() and ord(ch) < 0x10000 for ch in v)
    if isinstance(v, float):
        return v == v and v not in (float('inf'), float('-inf'))
    if isinstance(v, (datetime.date, datetime.datetime)):
        return False
    if isinstance(v, (list, tuple)):
        return all(_printable_bmp(x) for x in v)
    if isinstance(v, dict):
        return all(_printable_bmp(k) and _printable_bmp(x)
                   for k, x in v.items())
    if hasattr(v, '__dict__') and not isinstance(v, type):
        return all(_printable_bmp(x) for x in vars(v).values())
    if hasattr(v, 'data'):
        return _printable_bmp(v.data)
    return True


def _reload(mi, f, x, ind, ensure_ascii):
    v = values.value(mi, f, x)
    if v is None or not _printable_bmp(v) or not _printable_bmp(str(v)):
        return None
    load, _, dumps_json = values.functions(mi)[:3]
    indent = None if ind < 0 else ind
    before = plain(v, False)
    try:
        text = dumps_json(v, indent=indent, ensure_ascii=ensure_ascii)
    except RuntimeError:
        return None                 # aliases are not supported by JSON
    try:
        _strict_loads(text)
        back = load(text)
    except Exception as e:  # noqa
        if not SYMBOLIC:
            note(value=before, text=text, raised='%s: %s' % (
                type(e).__name__, str(e)[-200:]))
        return False
    after = plain(back, False)
    if not SYMBOLIC:
        note(model=values.MODELS[mi][0], value=before, text=text,
             loaded=after)
    return after == before


def reload(f: int, x: int, ind: int, ensure_ascii: bool) -> bool:
    """
    pre: 0 <= f < 10 and 0 <= x < 70 and -1 <= ind <= 8
    post: __return__
    """
    if (ind, ensure_ascii) not in ((-1, True), (2, False)):
        return True
    r = _reload(slice_no(0), f, x, ind, ensure_ascii)
    return True if r is None else r


_RELOAD_MODELS = [values.MODEL_IDX[n] for n in
                  ('doc', 'styled', 'loose', 'opt', 'order', 'company',
                   'lamp', 'derived', 'track', 'top_list', 'top_dict')]

SKIPPED = [] if STEP_MODEL_OK else [
    'c07_json.step: the one-step model of emit_json does not apply to this '
    'tree (yatiml.dumper.JsonDumperState is not the six-state enum the model '
    'is written against); only the whole-document conditions were run']

CONDITIONS = [
    {'fn': 'step', 'slices': list(range(8)), 'quick': 110, 'thorough': 400,
     'bound': 'one slice per event kind: top state over 5 states or NONE, '
              'optionally one more entry below (5 states; quick 2) '
              '(invariant: well-nested), _cur_indent 0..6 (quick 0..4), '
              'indent None/0..8 (quick None/0/1/2/8), allow_unicode, scalar '
              'tag out of 6 with one of 5 values'},
    {'fn': 'step_reach', 'quick': 60, 'thorough': 60, 'expect': 'REFUTED',
     'bound': 'reachability twin of step'},
][:2 if STEP_MODEL_OK else 0] + [
    {'fn': 'whole_shapes', 'quick': 110, 'thorough': 200,
     'twin': 'whole_reach',
     'bound': '24 tree shapes x indent None/0..8 x ensure_ascii with a plain '
              'string leaf'},
    {'fn': 'whole_leaves', 'slices': [0, 1, 2, 3], 'quick': 110,
     'thorough': 400,
     'bound': '24 shapes (quick: 5 -- leaf, [leaf], {k: leaf}, {leaf: 1}, '
              'nested) x 30 leaves x indent None/0/2 x ensure_ascii'},
    {'fn': 'whole_sinks', 'slices': [0, 1, 2, 3], 'quick': 110,
     'thorough': 400, 'twin': 'whole_sinks_reach',
     'bound': 'dump_json to an open text stream and dumps_json, each judged '
              'on its own (strict JSON, content, ASCII/compact defaults): 24 '
              'shapes (quick 8) x 4 leaves (plain, non-ASCII, non-BMP, date) '
              'x indent None/2 x ensure_ascii, directly or after a JSON dump '
              'of the same functions that was aborted half way (alias via '
              'dumps_json, alias via dump_json, sink failing on its k-th '
              'write, k <= 12 (quick 6)); slices by abort kind'},
    {'fn': 'reload', 'slices': _RELOAD_MODELS, 'quick': 110, 'thorough': 300,
     'bound': 'one slice per class model: every alternative of every factor '
              '(printable BMP, finite, no dates) x (compact ASCII | indent 2 '
              'unicode): load(dumps_json(v)) == v'},
]
