"""C17 -- recognition errors point at the offending place.

The real pipeline incl. the message builders (format_rec_error,
diagnose_missing_key, diagnose_extraneous_key, cjoin; the close-match stub S2
is NOT applied here) is executed on a valid document with one concrete line
per node and a solver-chosen single-point corruption; the positions cited in
the RecognitionError message are parsed and compared with the line of the
corrupted node, of its key and of the enclosing mapping.
"""
import re

import yaml

import yatiml
from vlib import docs, pipeline, ref, zoo
from vlib.common import (SYMBOLIC, T_BOOL, T_FLOAT, T_INT, T_MAP, T_NULL,
                         T_SEQ, T_STR, T_TS, _REAL_COMPOSER_GSN,
                         install_stubs, note, pick, slice_no, tree_to_text)
from vlib.pipeline import BASES, MODELS, MODEL_IDX

install_stubs(close_matches=False)

ENCODED = pipeline.PIPELINE_ENCODED + [
    'yatiml.util.diagnose_missing_key/diagnose_extraneous_key/'
    '_describe_allowed_present_keys/cjoin (with the real difflib)',
    'yatiml.irecognizer.format_rec_error']
ASSUMPTIONS = [
    'S1 node formatting, S3 composer; marks: every node gets its own '
    'concrete line (replay: the marks of the real parser)',
    'strong claim on hierarchy-free models (plain, coll, when, styled, '
    'picky, top_dict, uni, req4, job, labels -- job with Unions of a scalar '
    'and a collection of that scalar, whose members fail with the same '
    'words at different places): one corruption of a valid base document -- '
    'wrong scalar type at any scalar value, misspelt key, dropped required '
    'key, added key, unknown enum member -- must raise RecognitionError '
    'whose cited lines are all inside the document and include the line of '
    'the corrupted node, of its key or of the start of an enclosing mapping; '
    'an unknown or missing key is quoted in the message',
    'weak claim on the hierarchy model (shapes): at least one citation, all '
    'inside the document',
    '"inside the document": 1 <= line <= number of lines + 1 (an empty '
    'document\'s null value sits at the end-of-stream position)',
]

STRONG = ['plain', 'coll', 'when', 'styled', 'picky', 'top_dict', 'uni',
          'req4', 'job', 'labels']
WEAK = ['shapes']
_CASES = [(MODEL_IDX[n], 0) for n in STRONG + WEAK]
_CLASS_KEYS = {}
_REQUIRED = {}
for _mi, _bi in _CASES:
    ks, rq = set(), set()
    for c in MODELS[_mi][2]:
        import enum as _enum
        if issubclass(c, _enum.Enum) or ref.is_stringlike(c):
            continue
        for n, a, r, d in ref.params(c):
            ks.add(n)
            if r:
                rq.add(n)
    _CLASS_KEYS[_mi], _REQUIRED[_mi] = ks, rq

K_TYPE, K_MISSPELL, K_DROP, K_ADD, K_ENUM, K_ENUM_BOOL = range(6)
_CITE = re.compile(r'line (\d+), column (\d+)')


def _path(b, idx):
    """Path of node idx from the root: list of ('item'|'key'|'val', i)."""
    out = []
    node = b.nodes[idx]
    parent, slot = b.where[idx]
    while slot[0] != 'root':
        out.append(slot)
        i = [k for k, n in enumerate(b.nodes) if n is parent][0]
        parent, slot = b.where[i]
    return list(reversed(out))


def _walk(root, path):
    """Nodes along the path (root first)."""
    out = [root]
    n = root
    for kind, i in path:
        if kind == 'item':
            n = n.value[i]
        elif kind == 'key':
            n = n.value[i][0]
        else:
            n = n.value[i][1]
        out.append(n)
    return out


def _corrupt(mi, bi, site, kind):
    """Returns (built tree, path of the corrupted node or of the mapping
    that lost/gained a key, name that must be quoted or None) or None."""
    b = docs.build(MODELS[mi][3][bi])
    if site >= len(b.nodes):
        return None
    site = pick(list(range(len(b.nodes))), site)
    node = b.nodes[site]
    parent, slot = b.where[site]
    keys, required = _CLASS_KEYS[mi], _REQUIRED[mi]
    name = MODELS[mi][0]
    quoted = None
    if kind == K_TYPE:
        if not isinstance(node, yaml.ScalarNode) or slot[0] == 'key':
            return None
        if node.tag == T_STR:
            node.tag, node.value = T_INT, '17'
        elif node.tag == T_FLOAT and name == 'coll':
            node.tag, node.value = T_STR, 'abc'
        else:
            node.tag, node.value = T_STR, 'abc'
        # a str where Any / Union[..., str] is expected is not an error
        path = _path(b, site)
    elif kind == K_MISSPELL:
        if slot[0] != 'key' or node.value not in keys:
            return None
        quoted = node.value if node.value in required else \
            'zz' + node.value
        node.value = 'zz' + node.value
        path = _path(b, site)
    elif kind == K_DROP:
        if slot[0] != 'key' or node.value not in required:
            return None
        quoted = node.value
        path = _path(b, site)[:-1]
        docs.drop_entry(b, site)
    elif kind == K_ADD:
        if not isinstance(node, yaml.MappingNode):
            return None
        ks = [k.value for k, _ in node.value]
        if not ks or not all(k in keys for k in ks):
            return None                 # not a class mapping
        quoted = 'zzz'
        docs.add_entry(b, site, 'zzz', docs.I(1))
        path = _path(b, site)
    elif kind == K_ENUM:
        if name != 'styled' or not isinstance(node, yaml.ScalarNode) \
                or node.value not in ('red', 'green') or slot[0] == 'key':
            return None
        node.value = 'purple'
        path = _path(b, site)
    elif kind == K_ENUM_BOOL:
        # an unknown member spelt like a boolean: the parser tags it !!bool
        if name != 'styled' or not isinstance(node, yaml.ScalarNode) \
                or node.value not in ('red', 'green') or slot[0] == 'key':
            return None
        node.tag, node.value = 'tag:yaml.org,2002:bool', 'false'
        path = _path(b, site)
    else:
        return None
    docs.layout(b.root)
    return b, path, quoted


def _run(case, site, kind):
    mi, bi = pick(_CASES, case)
    name = MODELS[mi][0]
    r = _corrupt(mi, bi, site, kind)
    if r is None:
        return None
    b, path, quoted = r
    load = pipeline.loader_for(mi)
    if SYMBOLIC:
        from vlib.common import _TREE
        tree = b.root
        _TREE[0] = tree
        arg = ''
        nlines = max(n.start_mark.line for n in b.nodes) + 2
    else:
        arg = tree_to_text(b.root, load.loader)
        ldr = load.loader(arg)
        tree = _REAL_COMPOSER_GSN(ldr)
        nlines = arg.count('\n') + 1
    along = _walk(tree, path)
    # acceptable lines: the corrupted node, its key (same mapping entry), the
    # start of any enclosing mapping
    ok_lines = {along[-1].start_mark.line + 1}
    for n in along:
        if isinstance(n, yaml.MappingNode):
            ok_lines.add(n.start_mark.line + 1)
    if path and path[-1][0] == 'val':
        ok_lines.add(along[-2].value[path[-1][1]][0].start_mark.line + 1)
    if kind == K_ADD:
        # the corrupted node is the added key (the last entry)
        ok_lines.add(along[-1].value[-1][0].start_mark.line + 1)
    zoo.reset()
    try:
        v = load(arg)
        outcome, msg = 'loaded', ''
    except yatiml.RecognitionError as e:
        outcome, msg = 'RecognitionError', str(e)
    except Exception as e:   # noqa
        outcome, msg = type(e).__name__, str(e)
    cited = [int(m.group(1)) for m in _CITE.finditer(msg)]
    if not SYMBOLIC:
        note(model=name, corruption=kind, site=site, text=arg,
             outcome=outcome, message=msg[-700:], cited_lines=cited,
             acceptable_lines=sorted(ok_lines), must_quote=quoted)
    if outcome == 'loaded':
        # the corruption happened to produce another valid document (a str
        # where Any/Union[.., str] is expected ...): nothing to point at
        return None
    if outcome != 'RecognitionError':
        return True                     # C08's business
    if not cited or not all(1 <= c <= nlines + 1 for c in cited):
        return False
    if name in WEAK:
        return True
    if not any(c in ok_lines for c in cited):
        return False
    if quoted is not None and ('"%s"' % quoted) not in msg:
        return False
    return True


def corrupted(case: int, site: int, kind: int) -> bool:
    """
    pre: 0 <= case < 11 and 0 <= site < 28 and 0 <= kind < 6
    post: __return__
    """
    s = slice_no(-1)
    if s >= 0 and case != s:
        return True
    r = _run(case, site, kind)
    return True if r is None else r


def corrupted_reach(case: int, site: int, kind: int) -> bool:
    """
    pre: 0 <= case < 11 and 0 <= site < 28 and 0 <= kind < 6
    post: __return__
    """
    r = _run(case, site, kind)
    return not (r and case == 0 and kind == K_DROP)


# ------------------------------------------------ the weak claim, everywhere
_LIM_Q = pipeline.Limits(True)
_LIM_T = pipeline.Limits(False)


def _weak_check(mi, outcome, val, built):
    if outcome != 'raise' or not isinstance(val, yatiml.RecognitionError):
        return True
    msg = str(val)
    cited = [int(m.group(1)) for m in _CITE.finditer(msg)]
    nlines = max(n.start_mark.line for n in built.nodes) + 2
    if not SYMBOLIC:
        note(message=msg[-500:], cited_lines=cited, lines_in_document=nlines)
        # at replay the marks are the real parser's: count the text's lines
        from vlib.common import LAST
        nlines = (LAST.get('yaml_text') or '').count('\n') + 1
    return bool(cited) and all(1 <= c <= nlines + 1 for c in cited)


def weak(site: int, mut: int, rsel: int, tag: str, vsel: int,
         ksel: int) -> bool:
    """
    pre: 0 <= site < 28 and 0 <= mut < 7 and 0 <= rsel < 90
    pre: 1 <= len(tag) <= 40 and tag != '!'
    pre: not tag.startswith('tag:yaml.org,2002:')
    pre: 0 <= vsel < 20 and 0 <= ksel < 15
    post: __return__
    """
    from vlib.common import tier
    if tag != '!Zz':
        return True         # the weak claim is about positions: one unknown tag
    r = pipeline.explore(slice_no(0), site, mut, rsel, '!Zz', vsel, ksel,
                         _LIM_Q if tier() == 'quick' else _LIM_T,
                         _weak_check)
    return True if r is None else r[1]


def empty(which: int) -> bool:
    """
    pre: 0 <= which < 40
    post: __return__
    """
    for mi in range(len(MODELS)):       # concrete model index per path
        if which == mi:
            outcome, val = pipeline.run_load(mi, None)
            note(model=MODELS[mi][0], document='(empty)')
            if outcome != 'raise' or not isinstance(
                    val, yatiml.RecognitionError):
                return True
            msg = str(val)
            cited = [int(m.group(1)) for m in _CITE.finditer(msg)]
            if not SYMBOLIC:
                note(message=msg[-400:], cited_lines=cited)
            # the null value of an empty document sits at the end of stream
            return bool(cited) and all(1 <= c <= 2 for c in cited)
    return True


_WEAK_QUICK = [s for s in pipeline.QUICK_SLICES
               if MODELS[BASES[pipeline.slice_of(s)[0]][0]][0] in (
                   'shapes', 'uni', 'loose', 'coll')] + \
    pipeline.C17_EXTRA_SLICES

CONDITIONS = [
    {'fn': 'weak', 'slices': pipeline.ALL_SLICES + pipeline.C17_EXTRA_SLICES,
     'quick_slices': _WEAK_QUICK, 'quick': 110, 'thorough': 300,
     'bound': 'weak claim on the whole single-mutation document space of '
              'vlib/pipeline.py (quick: 4 models): every RecognitionError '
              'cites at least one position and every cited line lies inside '
              'the document'},
    {'fn': 'empty', 'quick': 60, 'thorough': 60,
     'bound': 'the empty document for every document type of the model '
              'table: a RecognitionError cites a position, inside the '
              'document'},
    {'fn': 'corrupted', 'slices': list(range(11)), 'quick': 110,
     'thorough': 300,
     'bound': 'one slice per model (10 hierarchy-free, 1 hierarchy): every '
              'node of the valid base document x 6 corruption kinds (wrong '
              'scalar type, misspelt key, dropped required key, added key, '
              'unknown enum member, unknown enum member spelt like a boolean)'},
    {'fn': 'corrupted_reach', 'quick': 60, 'thorough': 60,
     'expect': 'REFUTED',
     'bound': 'reachability twin: a dropped required key is reported at an '
              'acceptable line and quoted'},
]
