"""C06 -- dumps are faithful, tag-free and ordered, and leave the object
untouched.

Bounded end-to-end symbolic execution of the public dumps function on
solver-chosen values (vlib/values.py).  The text is read back with a PLAIN
YAML parser (yaml.safe_load / yaml.parse, no yatiml) and compared with the
object's projection computed by an independent reference.
"""
import datetime
import enum
import inspect
import pathlib
from collections import OrderedDict, UserString

import yaml

import yatiml
from vlib import values
from vlib.common import (SYMBOLIC, install_stubs, note, plain, slice_no)

install_stubs(composer=False)

ENCODED = [
    'yatiml.dumper.dumps_function/DumpsFunction.__call__, Dumper.__init__, '
    'Dumper.represent_ordereddict, add_to_dumper',
    'yatiml.representers.Representer.__call__/_Representer__sweeten, '
    'EnumRepresenter, UserStringRepresenter, PathRepresenter',
    'PyYAML SafeRepresenter, Serializer, Emitter (executed for real on '
    'per-path concrete values)']
ASSUMPTIONS = [
    'values: every alternative of every factor of the class models of '
    'vlib/values.py plus dump-only models: _yatiml_attributes returning an '
    'OrderedDict / a plain dict in non-alphabetical order, classes whose '
    'sweeten replaces the node by a scalar with the same object occurring '
    'several times, sweeten functions that add non-finite floats / None / '
    'look-alike strings through set_attribute and set_value, an extra '
    'attribute named like a parameter (purity only); other values are '
    'outside the bound',
    'the projection of classes whose _yatiml_sweeten restructures the node '
    '(order, company, lamp) is not recomputed here (C05/C15 cover it); for '
    'them tag-freedom, single document, purity and determinism are checked',
    '"plain YAML parser" = PyYAML SafeLoader (YAML 1.1 rules)',
    'values PyYAML cannot emit at all (lone surrogates) are skipped',
]

_MODELS = values.MODELS + values.DUMP_ONLY_MODELS
_DUMPS = {}


def _dumps(mi):
    if mi not in _DUMPS:
        _DUMPS[mi] = yatiml.dumps_function(*_MODELS[mi][2])
    return _DUMPS[mi]


_DUMPS_JSON = {}


def _json_twice(mi, v):
    """Repeated dumps give identical text -- also for the JSON flavour of the
    dump functions, and also when a dump in between was refused half way
    (an object referenced twice cannot be written as JSON)."""
    if mi not in _DUMPS_JSON:
        _DUMPS_JSON[mi] = yatiml.dumps_json_function(*_MODELS[mi][2])
    dj = _DUMPS_JSON[mi]

    def one():
        try:
            return dj(v)
        except RuntimeError:
            return 'RuntimeError'
        except (UnicodeEncodeError, yaml.YAMLError):
            return 'unencodable'
    first = one()
    shared = ['s']
    try:
        dj({'a': [shared, {'b': shared}]})
    except RuntimeError:
        pass
    second = one()
    if first != second and not SYMBOLIC:
        note(first_json_dump=first, after_a_refused_dump=second)
    return first == second


_OPT_DEFAULTS = {'b': None, 'c': 'red', 'd': 1.5, 'e': False, 's': 'dflt',
                 'l': [], 't': None, 'u': 7, 'm': None, 'n': None}


def _same(a, b):
    if isinstance(a, bool) or isinstance(b, bool):
        return isinstance(a, bool) and isinstance(b, bool) and a == b
    if a is None or b is None:
        return a is None and b is None
    if isinstance(a, str) or isinstance(b, str):
        return isinstance(a, str) and isinstance(b, str) and a == b
    return a == b


def project(v):
    """The object's projection as plain data (reference, from the docs)."""
    if isinstance(v, enum.Enum):
        return v.name
    if isinstance(v, values.Upper):
        return str(v).upper()           # Upper._yatiml_sweeten
    if isinstance(v, values.Postcode):
        return '%d %s' % (v.digits, v.letters)
    if isinstance(v, values.Money):
        return '%d %s' % (v.amount, v.currency.name)
    if isinstance(v, values.Company3):
        # index_attribute_to_map('employees', 'name'): the items lose their
        # name -- the items, not other references to the same object
        return OrderedDict([
            ('employees', OrderedDict(
                (k, OrderedDict([('role', e.role), ('hours', e.hours)]))
                for k, e in v.employees.items())),
            ('boss', project(v.boss))])
    if isinstance(v, values.Team3):
        return OrderedDict([
            ('members', OrderedDict(
                (e.name, OrderedDict([('role', e.role), ('hours', e.hours)]))
                for e in v.members)),
            ('lead', project(v.lead))])
    if isinstance(v, values.Special):
        return values._special_projection(v.x)
    if isinstance(v, values.Nulled):
        return values._nulled_projection(v.x)
    if isinstance(v, (UserString, yatiml.String, pathlib.PurePath)):
        return str(v)
    if isinstance(v, str):
        return str(v)
    if isinstance(v, (bool, int, float, type(None), datetime.date)):
        return v
    if isinstance(v, list):
        return [project(x) for x in v]
    if isinstance(v, dict):
        return OrderedDict((project(k), project(x)) for k, x in v.items())
    if hasattr(v, '_yatiml_attributes'):
        return OrderedDict((k, project(x))
                           for k, x in v._yatiml_attributes().items())
    out = OrderedDict()
    names = list(inspect.signature(type(v).__init__).parameters)[1:]
    for n in names:
        if n != '_yatiml_extra':
            out[n] = project(getattr(v, n))
    if '_yatiml_extra' in names:
        for k, x in v._yatiml_extra.items():
            out[k] = project(x)
    if isinstance(v, values.Span):
        out['start'] += 1           # Span._yatiml_sweeten, once
    if isinstance(v, values.DeepSpan):
        out['name'] += '+'          # DeepSpan._yatiml_sweeten, once
    if type(v) is values.Opt:
        for k, d in _OPT_DEFAULTS.items():
            if k in out and _same(out[k], d):
                del out[k]
    return out


def _eq_ordered(a, b):
    """Equality with mapping ORDER significant and NaN equal to NaN."""
    if isinstance(a, dict) and isinstance(b, dict):
        return len(a) == len(b) and all(
            _eq_ordered(ka, kb) and _eq_ordered(va, vb)
            for (ka, va), (kb, vb) in zip(a.items(), b.items()))
    if isinstance(a, list) and isinstance(b, list):
        return len(a) == len(b) and all(_eq_ordered(x, y)
                                        for x, y in zip(a, b))
    if isinstance(a, float) and isinstance(b, float):
        return (a != a and b != b) or (a == b)
    if isinstance(a, bool) != isinstance(b, bool):
        return False
    return type(a) is type(b) and a == b


_NO_PROJECTION = ('order', 'company', 'company2', 'lamp', 'collide')


def _dump_ok(mi, f, x, f2=None, x2=None):
    if f2 is not None:
        v = values.value2(mi, f, x, f2, x2)
    else:
        v = values.value(mi, f, x)
    if v is None:
        return None
    name = _MODELS[mi][0]
    before = plain(v)
    dumps = _dumps(mi)
    try:
        text = dumps(v)
    except (UnicodeEncodeError, yaml.YAMLError):
        return None
    text2 = dumps(v)
    after = plain(v)
    if not SYMBOLIC:
        note(model=name, value=before, text=text)
    if after != before:
        if not SYMBOLIC:
            note(modified_to=after)
        return False                        # purity
    if text2 != text:
        if not SYMBOLIC:
            note(second_dump=text2)
        return False                        # determinism
    try:
        events = list(yaml.parse(text, Loader=yaml.SafeLoader))
    except yaml.YAMLError as e:
        if not SYMBOLIC:
            note(not_well_formed=str(e)[:200])
        return False
    if sum(isinstance(e, yaml.DocumentStartEvent) for e in events) != 1:
        return False                        # exactly one document
    for e in events:
        tag = getattr(e, 'tag', None)
        if isinstance(e, (yaml.ScalarEvent, yaml.SequenceStartEvent,
                          yaml.MappingStartEvent)) and tag is not None:
            if not SYMBOLIC:
                note(explicit_tag=tag)
            return False                    # tag-free
    if not _json_twice(mi, v):
        return False                        # determinism, JSON flavour
    if name in _NO_PROJECTION:
        return True
    parsed = yaml.load(text, Loader=yaml.SafeLoader)
    want = project(v)
    if not SYMBOLIC:
        note(parsed=repr(parsed)[:600], projection=repr(want)[:600])
    return _eq_ordered(parsed, want)


def dump_ok(f: int, x: int) -> bool:
    """
    pre: 0 <= f < 10 and 0 <= x < 70
    post: __return__
    """
    r = _dump_ok(slice_no(0), f, x)
    return True if r is None else r


def dump_reach(f: int, x: int) -> bool:
    """
    pre: 0 <= f < 10 and 0 <= x < 70
    post: __return__
    """
    r = _dump_ok(slice_no(0), f, x)
    return not (r and f == 1 and x == 4)


def dump_ok2(x1: int, f2: int, x2: int) -> bool:
    """
    pre: 0 <= x1 < 70 and 0 <= f2 < 10 and 0 <= x2 < 70
    post: __return__
    """
    sl = slice_no(0)
    r = _dump_ok(sl // 16, sl % 16, x1, f2, x2)
    return True if r is None else r


CONDITIONS = [
    {'fn': 'dump_ok2', 'slices': values.combine_slices(), 'quick': None,
     'thorough': 600,
     'bound': 'TWO factors at a time for the doc, styled and opt models (one '
              'slice per model and first factor)'},
    {'fn': 'dump_ok', 'slices': [i for i, m in enumerate(_MODELS)
                                 if m[0] != 'pure'], 'quick': 110,
     'thorough': 300,
     'bound': 'one slice per class model: every alternative of every factor; '
              'purity (structural snapshot), determinism (two dumps; two JSON dumps around a refused one), one '
              'well-formed document, no explicit tag on any node, and '
              'safe_load(text) == projection with mapping order significant'},
    {'fn': 'dump_reach', 'slices': [0], 'quick': 60, 'thorough': 60,
     'expect': 'REFUTED', 'bound': 'reachability twin'},
]
