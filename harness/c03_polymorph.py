"""C03 -- polymorphic positions resolve to the unique most-derived match,
never a guess.

(A) Recognizer level, FREE symbolic tags: the real Recognizer.recognize on a
mapping whose keys are chosen by solver booleans, whose value tags and top
tag are free strings, for five hierarchies and Union/Optional types over
them, against the reference rule (vlib.ref.Ref.recognize).
(B) load level + order independence: the public load function with every
permutation of the registration order and of the Union members must give the
outcome of the canonical order; the exact class of the result is compared
with the reference.
"""
import abc
import itertools
import pathlib
from typing import List, Optional, Union

import yaml

import yatiml
from yatiml.recognizer import Recognizer
from vlib import pipeline, ref, zoo
from vlib.common import (SYMBOLIC, T_FLOAT, T_INT, T_MAP, T_SEQ, T_STR,
                         install_stubs, load_tree, mapping, note, pick, plain,
                         scalar, seq, slice_no)
from vlib.zoo import (DA, DB, DC, DD, HA, HB, HC, K1, K2, KBase, UA, UC,
                      Circle, Ellipse, Shape, Square)

install_stubs()

ENCODED = [
    'yatiml.recognizer.Recognizer.recognize, _Recognizer__recognize_user_'
    'classes, __recognize_user_class, __recognize_union, __recognize_list, '
    '__recognize_scalar', 'yatiml.util.is_abstract',
    'yatiml.helpers.UnknownNode.require_attribute/require_attribute_value '
    '(custom recognisers of the class model)',
    'yatiml.loader.Loader._Loader__process_node (load level)',
    'yatiml.loader.load_function/add_to_loader (registration order)']
ASSUMPTIONS = [
    'S1 node formatting, S2 close-match hints, S3 composer (load level)',
    'hierarchies: chain with an abstract middle class; chain whose middle '
    'class is not registered; fan of three siblings under an abstract base '
    '(two of them match the same keys); diamond; siblings with '
    'discriminating custom recognisers; a custom recogniser above '
    'auto-recognised subclasses; Union/Optional over their members, incl. a '
    'Union one of whose members is ambiguous in itself; a chain whose '
    'middle class is abstract only by inheritance; three concrete levels '
    'whose two leaves accept the same nodes; a Union with a List member '
    'and tagged sequences (load level); Unions of built-in '
    'scalars with an enum, a Path, a UserString (scalar documents)',
    'documents: a mapping with any subset of the hierarchy\'s keys, each '
    'value a scalar with a FREE tag, top-level tag FREE (any string of '
    'length <= 40)',
    'no claim in one corner the texts do not pin: a tag naming a registered '
    'non-abstract ancestor that itself matches, on a node recognised as a '
    'subclass (the implementation answers with the ancestor)',
    'order independence: all permutations of <= 3 Union members and all '
    'permutations of <= 4 registered classes, varied one at a time',
]

# a hierarchy whose middle class is abstract ONLY BY INHERITANCE: it
# neither lists abc.ABC among its direct bases nor defines an abstract method
# itself
class IA(abc.ABC):
    def __init__(self, a: int) -> None:
        self.a = a

    @abc.abstractmethod
    def f(self) -> int: ...


class IM(IA):
    def __init__(self, a: int, m: int) -> None:
        super().__init__(a)
        self.m = m


class IL(IM):
    def __init__(self, a: int, m: int, l: int) -> None:     # noqa: E741
        super().__init__(a, m)
        self.l = l                                          # noqa: E741

    def f(self) -> int:
        return 0


# three levels, all concrete: the two leaves accept the same nodes (their
# extra parameters are optional), and so do their ancestors
class TA:
    def __init__(self, a: int) -> None:
        self.a = a


class TM(TA):
    def __init__(self, a: int, m: int) -> None:
        super().__init__(a)
        self.m = m


class TL1(TM):
    def __init__(self, a: int, m: int, l: int = 0) -> None:     # noqa: E741
        super().__init__(a, m)
        self.l = l                                              # noqa: E741


class TL2(TM):
    def __init__(self, a: int, m: int, k: int = 0) -> None:
        super().__init__(a, m)
        self.k = k


# name -> (expected type, registered classes (canonical order), keys,
#          value tag each key needs)
H = [
    ('abstract_middle', HA, [HA, HB, HC], ['a', 'b', 'c']),
    ('unregistered_middle', UA, [UA, UC], ['a', 'c', 'm']),
    ('fan', Shape, [Shape, Circle, Square, Ellipse],
     ['center', 'radius', 'width', 'ratio']),
    ('diamond', DA, [DA, DB, DC, DD], ['a', 'b', 'c']),
    ('custom', KBase, [KBase, K1, K2], ['kind', 'v']),
    ('union_fan', Union[Circle, Square, int], [Shape, Circle, Square,
                                               Ellipse],
     ['center', 'radius', 'width', 'ratio']),
    ('optional_base', Optional[Shape], [Shape, Circle, Square, Ellipse],
     ['center', 'radius', 'width', 'ratio']),
    ('union_chain', Union[HC, HA, str], [HA, HB, HC], ['a', 'b', 'c']),
    ('custom_above_auto', zoo.RBase, [zoo.RBase, zoo.RSub, zoo.RSubSub],
     ['name', 'limit', 'extra']),
    ('union_ambiguous_member', Union[Shape, zoo.Other],
     [Shape, Circle, Square, Ellipse, zoo.Other],
     ['center', 'radius', 'width', 'ratio']),
    ('inherited_abstract', IA, [IA, IM, IL], ['a', 'm', 'l']),
    ('deep_ambiguous', TA, [TA, TM, TL1, TL2], ['a', 'm', 'l', 'k']),
    ('union_inherited_abstract', Union[IM, zoo.Other], [IA, IM, IL, zoo.Other],
     ['a', 'm', 'l']),
    # scalar positions where a built-in and a class written as a string
    # compete (only the scalar document matters)
    ('union_str_enum', Union[str, zoo.Color, int], [zoo.Color], ['a']),
    ('union_path_str', Union[int, pathlib.Path, str], [], ['a']),
    ('union_ustr', Union[float, zoo.UStr, bool], [zoo.UStr], ['a']),
]


def _value(key, vtag, kindsel):
    if key == 'center':
        return seq([scalar(T_FLOAT, '1.0')], tag=vtag)
    if key == 'kind':
        return scalar(vtag, pick(['k1', 'k2', 'zz'], kindsel))
    if key == 'name':
        return scalar(vtag, 'n')
    if key in ('radius', 'width', 'ratio'):
        return scalar(vtag, '1.5')
    return scalar(vtag, '1')


def _doc(hi, present, vtags, toptag, kindsel, scalar_doc):
    name, t, reg, keys = H[hi]
    if scalar_doc:
        return scalar(toptag, '1')
    ents = []
    for i, k in enumerate(keys):
        if present[i]:
            ents.append((scalar(T_STR, k), _value(k, vtags[i], kindsel)))
    return mapping(ents, tag=toptag)


def _regdict(reg):
    return {'!' + c.__name__: c for c in reg}


def _names(types):
    return sorted(getattr(t, '__name__', str(t)) for t in types)


def _recognizer_level(hi, p0, p1, p2, p3, t0, t1, t2, t3, toptag, kindsel,
                      scalar_doc):
    name, t, reg, keys = H[hi]
    present = [p0, p1, p2, p3][:len(keys)]
    vtags = [t0, t1, t2, t3][:len(keys)]
    doc = _doc(hi, present, vtags, toptag, kindsel, scalar_doc)
    doc2 = _doc(hi, present, vtags, toptag, kindsel, scalar_doc)
    R = ref.Ref(reg, None)
    try:
        want = R.recognize(doc2, t)
    except ref.NoClaim:
        return True
    got, _ = Recognizer(_regdict(reg),
                        {pathlib.Path: '!Path'}).recognize(doc, t)
    got = set(got)
    if not SYMBOLIC:
        note(hierarchy=name, keys=[k for i, k in enumerate(keys)
                                   if present[i]],
             value_tags=vtags, top_tag=toptag, recognised=_names(got),
             expected=_names(want))
    # what the position resolves to: the single recognised type, or failure
    # (0 or >= 2 candidates both make the load fail)
    return (got if len(got) == 1 else None) == \
        (want if len(want) == 1 else None)


def recognizer(p0: bool, p1: bool, p2: bool, p3: bool, t0: str, t1: str,
               t2: str, t3: str, toptag: str, kindsel: int,
               scalar_doc: bool) -> bool:
    """
    pre: len(t0) <= 30 and len(t1) <= 30 and len(t2) <= 30 and len(t3) <= 30
    pre: len(toptag) <= 40 and 0 <= kindsel < 3
    post: __return__
    """
    s = slice_no(0)
    hi, mode = s // 3, s % 3
    if hi >= len(H):
        return True
    n = len(H[hi][3])
    # the space is factored (DESIGN 4/C03): mode 0 varies key presence and
    # the top tag with well-typed values; mode 1 varies the value tags with
    # all keys present; mode 2 varies the top tag and one value tag over all
    # key subsets of size >= n-1
    good = [T_SEQ if k == 'center' else T_STR if k in ('kind', 'name') else
            T_FLOAT if k in ('radius', 'width', 'ratio') else T_INT
            for k in H[hi][3]] + [T_INT] * 4
    ts = [t0, t1, t2, t3]
    ps = [p0, p1, p2, p3]
    if any(ps[n:]) or any(x != '' for x in ts[n:]):
        return True
    if mode == 0:
        if ts[:n] != [''] * n:
            return True
        ts = good[:n] + [''] * (4 - n)
    elif mode == 1:
        if not all(ps[:n]) or scalar_doc or toptag != T_MAP:
            return True
    else:
        if sum(1 for x in ps[:n] if x) < n - 1 or scalar_doc:
            return True
        if ts[1:n] != [''] * (n - 1):
            return True
        ts = [t0] + good[1:n] + [''] * (4 - n)
    return _recognizer_level(hi, ps[0], ps[1], ps[2], ps[3], ts[0], ts[1],
                             ts[2], ts[3], toptag, kindsel, scalar_doc)


def recognizer_full(p0: bool, p1: bool, p2: bool, t0: str, t1: str, t2: str,
                    toptag: str, kindsel: int, scalar_doc: bool) -> bool:
    """
    pre: len(t0) <= 30 and len(t1) <= 30 and len(t2) <= 30
    pre: len(toptag) <= 40 and 0 <= kindsel < 3
    post: __return__
    """
    # thorough: hierarchies with <= 3 keys, nothing factored away: every key
    # subset x every value tag FREE x top tag FREE
    hi = slice_no(0)
    n = len(H[hi][3])
    if n > 3:
        return True
    ps, ts = [p0, p1, p2], [t0, t1, t2]
    if any(ps[n:]) or any(x != '' for x in ts[n:]):
        return True
    return _recognizer_level(hi, ps[0], ps[1], ps[2], False, ts[0], ts[1],
                             ts[2], '', toptag, kindsel, scalar_doc)


def recognizer_reach(p0: bool, p1: bool, p2: bool, p3: bool, t0: str,
                     t1: str, t2: str, t3: str, toptag: str, kindsel: int,
                     scalar_doc: bool) -> bool:
    """
    pre: len(t0) <= 30 and len(t1) <= 30 and len(t2) <= 30 and len(t3) <= 30
    pre: len(toptag) <= 40 and 0 <= kindsel < 3
    post: __return__
    """
    # fan, mode 0: {center, radius} with tag !Ellipse disambiguates
    if not (p0 and p1 and not p2 and not p3 and not scalar_doc
            and t0 == t1 == t2 == t3 == ''):
        return True
    ok = _recognizer_level(2, True, True, False, False, T_SEQ, T_FLOAT, '',
                           '', toptag, kindsel, False)
    return not (ok and toptag == '!Ellipse')


# ------------------------------------------------------------ load level
_PERM_MODELS = [
    ('str_enum', Union[str, zoo.Color, int], [zoo.Color]),
    ('path_str', Union[int, str, pathlib.Path], []),
    ('ustr_str', Union[float, zoo.UStr, str], [zoo.UStr]),
    ('inherited_abstract', Union[IA, zoo.Other], [IA, IM, IL, zoo.Other]),
    ('list_union', Union[List[float], Circle, int], [Shape, Circle, Square]),
    ('deep_ambiguous', Union[TA, str], [TA, TM, TL1, TL2]),
    ('fan_union', Union[Circle, Square, int], [Shape, Circle, Square,
                                               Ellipse]),
    ('chain_union', Union[HC, HA, str], [HA, HB, HC]),
    ('diamond', DA, [DA, DB, DC, DD]),
    ('enum_bool', Union[zoo.Color, bool, int], [zoo.Color]),
]


def _union_perms(t):
    if ref.is_union(t):
        return [Union[tuple(p)] for p in itertools.permutations(ref.args(t))]
    return [t]


_LOADERS = []
for _n, _t, _reg in _PERM_MODELS:
    _variants = []
    # factored: every Union order with the canonical registration order, then
    # every registration order with the canonical Union order
    _pairs = [(u, tuple(_reg)) for u in _union_perms(_t)] + \
        [(_t, rp) for rp in itertools.permutations(_reg)][1:]
    for _ut, _rp in _pairs:
        if ref.is_union(_ut):
            _variants.append(yatiml.load_function(_ut, *_rp))
        else:
            # the document type is registered last by load_function; vary
            # the order of the rest
            _variants.append(yatiml.load_function(
                _ut, *[c for c in _rp if c is not _ut]))
    _LOADERS.append(_variants)
NVARIANTS = [len(v) for v in _LOADERS]

_SCALAR_DOCS = [lambda t: scalar(T_STR, 'red'), lambda t: scalar(T_STR, 'a/b'),
                lambda t: scalar(T_INT, '1'),
                lambda t: scalar('tag:yaml.org,2002:bool', 'true')]
_LDOCS = [
    _SCALAR_DOCS, _SCALAR_DOCS, _SCALAR_DOCS,
    # inherited_abstract
    [lambda t: mapping([(scalar(T_STR, 'a'), scalar(T_INT, '1')),
                        (scalar(T_STR, 'm'), scalar(T_INT, '2'))], tag=t),
     lambda t: mapping([(scalar(T_STR, 'a'), scalar(T_INT, '1')),
                        (scalar(T_STR, 'm'), scalar(T_INT, '2')),
                        (scalar(T_STR, 'l'), scalar(T_INT, '3'))], tag=t),
     lambda t: mapping([(scalar(T_STR, 'a'), scalar(T_INT, '1'))], tag=t),
     lambda t: mapping([(scalar(T_STR, 'center'), seq([]))], tag=t)],
    # list_union: a SEQUENCE that carries the tag
    [lambda t: seq([scalar(T_FLOAT, '1.0'), scalar(T_FLOAT, '2.0')], tag=t),
     lambda t: seq([], tag=t),
     lambda t: mapping([(scalar(T_STR, 'center'), seq([])),
                        (scalar(T_STR, 'radius'), scalar(T_FLOAT, '1.0'))],
                       tag=t),
     lambda t: seq([scalar(T_STR, 'x')], tag=t)],
    # deep_ambiguous
    [lambda t: mapping([(scalar(T_STR, 'a'), scalar(T_INT, '1')),
                        (scalar(T_STR, 'm'), scalar(T_INT, '2'))], tag=t),
     lambda t: mapping([(scalar(T_STR, 'a'), scalar(T_INT, '1')),
                        (scalar(T_STR, 'm'), scalar(T_INT, '2')),
                        (scalar(T_STR, 'k'), scalar(T_INT, '3'))], tag=t),
     lambda t: mapping([(scalar(T_STR, 'a'), scalar(T_INT, '1'))], tag=t),
     lambda t: scalar(T_STR, 's')],
    # fan_union
    [lambda t: mapping([(scalar(T_STR, 'center'), seq([])),
                        (scalar(T_STR, 'radius'), scalar(T_FLOAT, '1.0'))],
                       tag=t),
     lambda t: mapping([(scalar(T_STR, 'center'), seq([])),
                        (scalar(T_STR, 'width'), scalar(T_FLOAT, '1.0'))],
                       tag=t),
     lambda t: scalar(T_INT, '3'),
     lambda t: mapping([(scalar(T_STR, 'center'), seq([]))], tag=t)],
    # chain_union
    [lambda t: mapping([(scalar(T_STR, 'a'), scalar(T_INT, '1'))], tag=t),
     lambda t: mapping([(scalar(T_STR, 'a'), scalar(T_INT, '1')),
                        (scalar(T_STR, 'b'), scalar(T_INT, '2')),
                        (scalar(T_STR, 'c'), scalar(T_INT, '3'))], tag=t),
     lambda t: mapping([(scalar(T_STR, 'a'), scalar(T_INT, '1')),
                        (scalar(T_STR, 'b'), scalar(T_INT, '2'))], tag=t),
     lambda t: scalar(T_STR, 's')],
    # diamond
    [lambda t: mapping([(scalar(T_STR, 'a'), scalar(T_INT, '1')),
                        (scalar(T_STR, 'b'), scalar(T_INT, '2')),
                        (scalar(T_STR, 'c'), scalar(T_INT, '3'))], tag=t),
     lambda t: mapping([(scalar(T_STR, 'a'), scalar(T_INT, '1')),
                        (scalar(T_STR, 'b'), scalar(T_INT, '2'))], tag=t),
     lambda t: mapping([(scalar(T_STR, 'a'), scalar(T_INT, '1'))], tag=t)],
    # enum_bool
    [lambda t: scalar('tag:yaml.org,2002:bool', 'true'),
     lambda t: scalar(T_STR, 'red'),
     lambda t: scalar(T_STR, 'true'),
     lambda t: scalar(T_INT, '1')],
]
_TOPTAGS = [T_MAP, '!Circle', '!Ellipse', '!Square', '!Shape', '!HA', '!HC',
            '!HB', '!DD', '!DB', '!DA', '!Zz', '!Color', T_STR, '!IM', '!IL',
            '!UStr', '!Other', T_SEQ, '!TM', '!TL1', '!TL2', '!TA']


def _sig(loader, tree):
    zoo.reset()
    try:
        v = load_tree(loader, tree)
    except (yatiml.RecognitionError, yaml.YAMLError):
        return ('fails',)
    return ('value', type(v).__name__, plain(v))


def _order(m, d, tt, variant):
    for mi in range(len(_PERM_MODELS)):
        if m != mi:
            continue
        if d >= len(_LDOCS[mi]) or variant >= NVARIANTS[mi]:
            return None
        toptag = pick(_TOPTAGS, tt)
        mk = pick(_LDOCS[mi], d)
        base = _sig(_LOADERS[mi][0], mk(toptag))
        other = _sig(pick(_LOADERS[mi], variant), mk(toptag))
        # and the exact class against the reference
        name, t, reg = _PERM_MODELS[mi]
        R = ref.Ref(reg, _LOADERS[mi][0].loader)
        try:
            want = ('value', type(R.load(mk(toptag), t)).__name__)
        except ref.Reject:
            want = ('fails',)
        except ref.NoClaim:
            want = None
        if not SYMBOLIC:
            note(model=name, doc=d, top_tag=toptag, variant=variant,
                 canonical=base, permuted=other, reference=want)
        if base != other:
            return False
        if want is not None and base[:2] != want:
            return False
        return True
    return None


def order(m: int, d: int, tt: int, variant: int) -> bool:
    """
    pre: 0 <= m < 10 and 0 <= d < 4 and 0 <= tt < 23 and 0 <= variant < 30
    post: __return__
    """
    s = slice_no(-1)
    if s >= 0 and (m != s // 4 or d != s % 4):
        return True
    r = _order(m, d, tt, variant)
    return True if r is None else r


def order_reach(m: int, d: int, tt: int, variant: int) -> bool:
    """
    pre: 0 <= m < 10 and 0 <= d < 4 and 0 <= tt < 23 and 0 <= variant < 30
    post: __return__
    """
    if m != 6 or d != 0 or tt != 2:
        return True
    r = _order(m, d, tt, variant)
    return not (r and variant == 7)


CONDITIONS = [
    {'fn': 'recognizer_full',
     'slices': [i for i, h in enumerate(H) if len(h[3]) <= 3],
     'quick': None, 'thorough': 900,
     'bound': 'hierarchies with <= 3 keys, unfactored: every key subset x '
              'every value tag FREE x top tag FREE (also a scalar document)'},
    {'fn': 'recognizer', 'slices': list(range(3 * len(H))), 'quick': 110,
     'thorough': 600,
     'bound': 'one slice per (hierarchy/type, factor): factor 0 = all key '
              'subsets x FREE top tag (also a scalar document) with '
              'well-typed values; factor 1 = all keys present, every value '
              'tag FREE; factor 2 = key subsets of size >= n-1 x FREE top '
              'tag x first value tag FREE'},
    {'fn': 'recognizer_reach', 'slices': [6], 'quick': 60, 'thorough': 60,
     'expect': 'REFUTED',
     'bound': 'reachability twin: !Ellipse disambiguates {center, radius}'},
    {'fn': 'order', 'slices': list(range(40)), 'quick': 110, 'thorough': 400,
     'bound': 'load level: 10 models x <= 4 documents x 23 top-level tags x '
              'every permutation of the Union members (canonical '
              'registration order) and every permutation of the registered '
              'classes (canonical Union order), up to 29 load functions per '
              'model; outcome equals '
              'that of the canonical order and the class of the result '
              'equals the reference'},
    {'fn': 'order_reach', 'quick': 60, 'thorough': 60, 'expect': 'REFUTED',
     'bound': 'reachability twin'},
]
