"""C16 -- UnknownNode.require_* accept exactly the nodes they describe.

Real code executed symbolically: yatiml.helpers.UnknownNode.require_scalar,
require_mapping, require_sequence, require_attribute (and through it the real
Recognizer.recognize), require_attribute_value, require_attribute_value_not.
Node tags are FREE symbolic strings; the predicates below are written from
the docstrings.
"""
import datetime
import enum
from typing import Any, Dict, List, Optional, Union

import yaml

import yatiml
from yatiml.recognizer import Recognizer
from vlib import zoo
from vlib.common import (SYMBOLIC, T_BOOL, T_FLOAT, T_INT, T_MAP, T_NULL,
                         T_SEQ, T_STR, T_TS, install_stubs, mapping, note,
                         pick, scalar, seq, slice_no, tier, tree_sig)

install_stubs()
QUICK = tier() == 'quick'

ENCODED = [
    'yatiml.helpers.UnknownNode.require_scalar/require_mapping/'
    'require_sequence/require_attribute/require_attribute_value/'
    'require_attribute_value_not',
    'yatiml.recognizer.Recognizer.recognize and all _Recognizer__recognize_* '
    '(through require_attribute with a type)',
    'yatiml.helpers.Node.is_scalar/get_value']
ASSUMPTIONS = [
    'S1 node formatting, S2 close-match hints',
    'the wrapped node is a scalar / sequence / mapping with a FREE tag '
    '(len <= 30); mappings have <= 2 entries with keys from {k, other, a '
    'non-string-tagged k, a sequence key} and values that are scalars with '
    'a FREE tag and a palette value, or collections; the attribute name is '
    'a FREE string (len <= 5)',
    'required types: str, int, float, bool, None, date, List[int], '
    'Dict[str, str], Union[int, str], Optional[bool], Any, an enum, a '
    'string-like, a class (Sub), a class with subclasses (Shape)',
    'a value whose spelling is malformed for its tag (!!int abc) is outside '
    'require_attribute_value\'s documented domain only if the load itself '
    'would reject it; here such values must lead to RecognitionError or a '
    'normal return, never to another exception',
]

_TYPES = [str, int, float, bool, None]
_TAGS = [T_STR, T_INT, T_FLOAT, T_BOOL, T_NULL]
_REG = {'!Sub': zoo.Sub, '!Color': zoo.Color, '!Ident': zoo.Ident,
        '!Shape': zoo.Shape, '!Circle': zoo.Circle, '!Square': zoo.Square}
_REC = Recognizer(_REG, {})
_VALS = ['5', 'abc', 'true', '', '1.5', 'false', 'red', '2001-12-14']


def _node(kind, tag):
    if kind == 0:
        return scalar(tag, 'v')
    if kind == 1:
        return seq([], tag=tag)
    return mapping([], tag=tag)


def _snapshot(n):
    return tree_sig(n)


# ---------------------------------------------------------- kind predicates
def _kinds(kind, tag, nt, t1, t2) -> bool:
    y = _node(kind, tag)
    u = yatiml.UnknownNode(_REC, y)
    before = _snapshot(y)
    types = [pick(_TYPES, t1), pick(_TYPES, t2)][:nt]
    want_scalar = kind == 0 and (nt == 0 or any(
        tag == pick(_TAGS, t) for t in [t1, t2][:nt]))
    for fn, want in ((lambda: u.require_scalar(*types), want_scalar),
                     (u.require_sequence, kind == 1),
                     (u.require_mapping, kind == 2)):
        try:
            fn()
            got = True
        except yatiml.RecognitionError:
            got = False
        if got != want:
            if not SYMBOLIC:
                note(kind=kind, tag=tag, types=types, accepted=got,
                     expected=want)
            return False
    return _snapshot(y) == before


def kinds(kind: int, tag: str, nt: int, t1: int, t2: int) -> bool:
    """
    pre: 0 <= kind < 3 and len(tag) <= 30
    pre: 0 <= nt <= 2 and 0 <= t1 < 5 and 0 <= t2 < 5
    post: __return__
    """
    return _kinds(kind, tag, nt, t1, t2)


def kinds_reach(kind: int, tag: str, nt: int, t1: int, t2: int) -> bool:
    """
    pre: 0 <= kind < 3 and len(tag) <= 30
    pre: 0 <= nt <= 2 and 0 <= t1 < 5 and 0 <= t2 < 5
    post: __return__
    """
    ok = _kinds(kind, tag, nt, t1, t2)
    return not (ok and kind == 0 and nt == 2 and tag == T_FLOAT and t2 == 2)


# ------------------------------------------------------- attribute helpers
def _mapping_node(top, n, kk1, kk2, vk1, vtag1, vv1, vk2, vtag2, vv2):
    """top: 0 mapping, 1 scalar, 2 sequence.  Entry keys by kk: 0 'k',
    1 'other', 2 'k' tagged int (not a string key), 3 a sequence key."""
    if top == 1:
        return scalar(T_STR, 'k')
    if top == 2:
        return seq([scalar(T_STR, 'k')])

    def key(kk):
        if kk == 0:
            return scalar(T_STR, 'k')
        if kk == 1:
            return scalar(T_STR, 'other')
        if kk == 2:
            return scalar(T_INT, 'k')
        return seq([scalar(T_STR, 'k')])

    def val(vk, vtag, vv):
        if vk == 0:
            return scalar(vtag, pick(_VALS, vv))
        if vk == 1:
            return seq([scalar(T_INT, '1')], tag=vtag)
        return mapping([(scalar(T_STR, 'x'), scalar(T_INT, '1'))], tag=vtag)
    ents = []
    if n >= 1:
        ents.append((key(kk1), val(vk1, vtag1, vv1)))
    if n >= 2:
        ents.append((key(kk2), val(vk2, vtag2, vv2)))
    return mapping(ents)


def _entries(y):
    if not isinstance(y, yaml.MappingNode):
        return None
    return y.value


_PYVALS = ['abc', 5, 1.5, True, False, None, 'true', '5', 0, '']


def _scalar_matches(vnode, value):
    """vnode is a scalar of value's type that is equal (docstring of
    require_attribute_value).  Returns True/False, or None when the
    spelling is malformed for the tag (no claim on accept/reject)."""
    want_tag = {str: T_STR, int: T_INT, float: T_FLOAT, bool: T_BOOL,
                type(None): T_NULL}[type(value)]
    if not isinstance(vnode, yaml.ScalarNode) or vnode.tag != want_tag:
        return False
    text = vnode.value
    if want_tag == T_STR:
        return text == value
    if want_tag == T_NULL:
        return True
    if want_tag == T_BOOL:
        if text.lower() not in ('true', 'false', 'yes', 'no', 'on', 'off'):
            return None
        return (text.lower() in ('true', 'yes', 'on')) == value
    try:
        parsed = int(text) if want_tag == T_INT else float(text)
    except ValueError:
        return None
    return parsed == value


def _attr_value(top, n, kk1, kk2, vk1, vtag1, vv1, vk2, vtag2, vv2, attr,
                pv, negate) -> bool:
    y = _mapping_node(top, n, kk1, kk2, vk1, vtag1, vv1, vk2, vtag2, vv2)
    u = yatiml.UnknownNode(_REC, y)
    before = _snapshot(y)
    value = pick(_PYVALS, pv)
    ents = _entries(y)
    # the documented predicate
    if ents is None:
        want = False
    else:
        hits = [v for k, v in ents if isinstance(k, yaml.ScalarNode)
                and k.tag == T_STR and k.value == attr]
        if not hits:
            want = False
        else:
            ms = [_scalar_matches(v, value) for v in hits]
            if any(m is None for m in ms) or len(set(ms)) > 1:
                # malformed spelling, or duplicate keys (not valid YAML)
                # whose values disagree: no claim on accept/reject
                want = None
            elif negate:
                want = not ms[0]
            else:
                want = ms[0]
    try:
        if negate:
            u.require_attribute_value_not(attr, value)
        else:
            u.require_attribute_value(attr, value)
        got = True
    except yatiml.RecognitionError:
        got = False
    except Exception as e:   # noqa
        if not SYMBOLIC:
            note(node=before, attribute=attr, value=value, negate=negate,
                 raised='%s: %s' % (type(e).__name__, e))
        return False
    if not SYMBOLIC:
        note(node=before, attribute=attr, value=value, negate=negate,
             accepted=got, expected=want)
    if want is not None and got != want:
        return False
    return _snapshot(y) == before


def attr_value(top: int, n: int, kk1: int, kk2: int, vk1: int, vtag1: str,
               vv1: int, vk2: int, vtag2: str, vv2: int, attr: str, pv: int,
               negate: bool) -> bool:
    """
    pre: 0 <= top < 3 and 0 <= n <= 2 and 0 <= kk1 < 4 and 0 <= kk2 < 4
    pre: 0 <= vk1 < 3 and 0 <= vk2 < 3 and 0 <= vv1 < 8 and 0 <= vv2 < 8
    pre: len(vtag1) <= 30 and len(vtag2) <= 30 and len(attr) <= 5
    pre: 0 <= pv < 10
    post: __return__
    """
    s = slice_no(-1)
    if s >= 0 and pv != s:
        return True
    if QUICK and (vv1 > 5 or vv2 > 5):
        return True
    if n == 2 and (kk2 != 0 or vk2 != 0 or kk1 != 0 or vk1 == 1
                   or vv2 > (2 if QUICK else 4)):
        return True         # second entry: only a duplicate 'k' scalar varies
    if n < 2 and (vv2 != 0 or vtag2 != ''):
        return True
    return _attr_value(top, n, kk1, kk2, vk1, vtag1, vv1, vk2, vtag2, vv2,
                       attr, pv, negate)


def attr_value_reach(top: int, n: int, kk1: int, kk2: int, vk1: int,
                     vtag1: str, vv1: int, vk2: int, vtag2: str, vv2: int,
                     attr: str, pv: int, negate: bool) -> bool:
    """
    pre: 0 <= top < 3 and 0 <= n <= 2 and 0 <= kk1 < 4 and 0 <= kk2 < 4
    pre: 0 <= vk1 < 3 and 0 <= vk2 < 3 and 0 <= vv1 < 8 and 0 <= vv2 < 8
    pre: len(vtag1) <= 30 and len(vtag2) <= 30 and len(attr) <= 5
    pre: 0 <= pv < 10
    post: __return__
    """
    s = slice_no(-1)
    if s >= 0 and pv != s:
        return True
    if vv1 > 5 or vv2 > 2:
        return True
    if n == 2 and (kk2 != 0 or vk2 != 0 or kk1 != 0 or vk1 == 1):
        return True
    if n < 2 and (vv2 != 0 or vtag2 != ''):
        return True
    ok = _attr_value(top, n, kk1, kk2, vk1, vtag1, vv1, vk2, vtag2, vv2,
                     attr, pv, negate)
    return not (ok and top == 0 and n == 1 and kk1 == 0 and attr == 'k'
                and pv == 1 and vtag1 == T_INT and vv1 == 0 and not negate)


# -------------------------------------------------- require_attribute(typ)
_RTYPES = [None, str, int, float, bool, type(None), datetime.date,
           List[int], Dict[str, str], Union[int, str], Optional[bool], Any,
           zoo.Color, zoo.Ident, zoo.Sub, zoo.Shape]
_NOTYPE = 0


def _ref_recognizable(v, t):
    """Is node v recognisable as type t by the documented rules?  (Written
    from the docs; small type language, nodes as built by _mapping_node.)"""
    sc = isinstance(v, yaml.ScalarNode)
    if t is Any:
        return True
    if t in (str, int, float, bool, type(None), datetime.date):
        want = {str: T_STR, int: T_INT, float: T_FLOAT, bool: T_BOOL,
                type(None): T_NULL, datetime.date: T_TS}[t]
        return sc and v.tag == want
    if t == Union[int, str]:
        return sc and v.tag in (T_INT, T_STR)
    if t == Optional[bool]:
        return sc and v.tag in (T_BOOL, T_NULL)
    if t == List[int]:
        return isinstance(v, yaml.SequenceNode) and all(
            isinstance(i, yaml.ScalarNode) and i.tag == T_INT
            for i in v.value)
    if t == Dict[str, str]:
        return isinstance(v, yaml.MappingNode) and all(
            isinstance(k, yaml.ScalarNode) and k.tag == T_STR and
            isinstance(x, yaml.ScalarNode) and x.tag == T_STR
            for k, x in v.value)
    if t is zoo.Color:
        ok = sc and v.tag in (T_STR, T_BOOL)
        return ok
    if t is zoo.Ident:
        return sc and v.tag == T_STR
    if t is zoo.Sub:
        # mapping {x: 1}; a non-core tag must name the class
        if not isinstance(v, yaml.MappingNode):
            return False
        if v.tag.startswith('tag:yaml.org,2002'):
            return True
        return v.tag == '!Sub'
    if t is zoo.Shape:
        return False            # {x: 1} is neither a Circle nor a Square
    raise AssertionError(t)


def _attr_typed(top, n, kk1, vk1, vtag1, vv1, attr, ti) -> bool:
    y = _mapping_node(top, n, kk1, 1, vk1, vtag1, vv1, 0, T_STR, 0)
    u = yatiml.UnknownNode(_REC, y)
    before = _snapshot(y)
    t = pick(_RTYPES, ti)
    ents = _entries(y)
    if ents is None:
        want = False
    else:
        hits = [v for k, v in ents if k.value == attr]
        if not hits:
            want = False
        elif ti == _NOTYPE:
            want = True
        else:
            want = _ref_recognizable(hits[0], t)
    try:
        if ti == _NOTYPE:
            u.require_attribute(attr)
        else:
            u.require_attribute(attr, t)
        got = True
    except yatiml.RecognitionError:
        got = False
    except Exception as e:   # noqa
        if not SYMBOLIC:
            note(node=before, attribute=attr, typ=t,
                 raised='%s: %s' % (type(e).__name__, e))
        return False
    if not SYMBOLIC:
        note(node=before, attribute=attr, typ=t, accepted=got, expected=want,
             after=_snapshot(y))
    return got == want and _snapshot(y) == before


def attr_typed(top: int, n: int, kk1: int, vk1: int, vtag1: str, vv1: int,
               attr: str, ti: int) -> bool:
    """
    pre: 0 <= top < 3 and 0 <= n <= 2 and 0 <= kk1 < 4
    pre: 0 <= vk1 < 3 and 0 <= vv1 < 8
    pre: len(vtag1) <= 30 and len(attr) <= 5
    pre: 0 <= ti < 16
    post: __return__
    """
    s = slice_no(-1)
    if s >= 0 and ti != s:
        return True
    return _attr_typed(top, n, kk1, vk1, vtag1, vv1, attr, ti)


def attr_typed_reach(top: int, n: int, kk1: int, vk1: int, vtag1: str,
                     vv1: int, attr: str, ti: int) -> bool:
    """
    pre: 0 <= top < 3 and 0 <= n <= 2 and 0 <= kk1 < 4
    pre: 0 <= vk1 < 3 and 0 <= vv1 < 8
    pre: len(vtag1) <= 30 and len(attr) <= 5
    pre: 0 <= ti < 16
    post: __return__
    """
    s = slice_no(-1)
    if s >= 0 and ti != s:
        return True
    ok = _attr_typed(top, n, kk1, vk1, vtag1, vv1, attr, ti)
    return not (ok and top == 0 and n >= 1 and kk1 == 0 and attr == 'k'
                and vk1 == 0 and vtag1 == T_BOOL and vv1 == 2)


CONDITIONS = [
    {'fn': 'kinds', 'quick': 100, 'thorough': 200, 'twin': 'kinds_reach',
     'bound': 'node kind x FREE tag x 0..2 required scalar types out of 5'},
    {'fn': 'attr_value', 'slices': list(range(10)), 'quick': 110,
     'thorough': 600,
     'bound': 'one slice per required value (10: strs, ints, floats, '
              'bools, None): wrapped node mapping/scalar/sequence, <= 2 '
              'entries (4 key kinds; the 2nd entry only a duplicate scalar '
              'k), value scalar with FREE tag and 8 (quick 6) spellings or a '
              'collection, FREE attribute name (len<=5), both '
              'require_attribute_value and _value_not'},
    {'fn': 'attr_value_reach', 'slices': [1], 'quick': 100, 'thorough': 100,
     'expect': 'REFUTED', 'bound': 'reachability twin'},
    {'fn': 'attr_typed', 'slices': list(range(16)), 'quick': 110,
     'thorough': 600,
     'bound': 'one slice per required type (16, incl. none): as above with '
              'one varying entry; compared with the documented recognition '
              'rules; node snapshot must be unchanged'},
    {'fn': 'attr_typed_reach', 'slices': [12], 'quick': 100, 'thorough': 100,
     'expect': 'REFUTED',
     'bound': 'reachability twin: x: true recognised as an enum member'},
]
