"""C11 -- load and dump functions are stateless, isolated, and leave PyYAML
untouched.

(a) frame condition, one step from the state reached so far: a structural
snapshot of every class-level registry of PyYAML and yatiml, of all load/dump
functions created so far and of the user classes is taken, one solver-chosen
operation runs (create a function over class set P or over a same-named set
Q, call a function on a valid or invalid document/value, a JSON dump that
aborts half way), and everything not owned by a function created in that step
must be unchanged.
(b) histories of <= 3 operations, then a battery of calls on the long-lived
functions must give what freshly created functions give.
Thread schedules are NOT covered (no scheduler model in the engine).
"""
import copy
import io
from typing import Any, Dict, List, Optional

import yaml

import yatiml
import yatiml.util
from vlib.common import (SYMBOLIC, install_stubs, note, pick, plain,
                         slice_no, tier)

install_stubs(composer=False)

# ---- PyYAML as it is BEFORE any yatiml function has been created or called
_PY_PROBES = ['a: 1e5\nb: [yes, no, 1_000, 2001-12-14]\n', 'x: 1.5\n',
              "k: 'true'\n", '- 1_000.5\n- 190:20:30.15\n- 0o17\n- .5e3\n',
              'true: on\n']
_PY_VALUES = [{'b': ['yes', 1e5, '1e5', '.5e3', True], 'a': None},
              ['1_000', 1.5e-7, 'null', '~']]


def _pyyaml_probe():
    out = []
    for p in _PY_PROBES:
        try:
            out.append(repr(yaml.safe_load(p)))
        except Exception as e:   # noqa
            out.append('error ' + type(e).__name__)
    for v in _PY_VALUES:
        out.append(yaml.safe_dump(v))
    return out


def _pyyaml_tables():
    sig = []
    for c in (yaml.SafeLoader, yaml.SafeDumper, yaml.Loader, yaml.Dumper,
              yaml.BaseLoader, yaml.resolver.Resolver,
              yaml.resolver.BaseResolver, yaml.constructor.SafeConstructor,
              yaml.representer.SafeRepresenter):
        for name in ('yaml_constructors', 'yaml_multi_constructors',
                     'yaml_representers', 'yaml_multi_representers',
                     'yaml_implicit_resolvers', 'yaml_path_resolvers'):
            t = getattr(c, name, None)
            if isinstance(t, dict):
                sig.append((c.__name__, name, sorted(
                    (repr(k), [(x[0], x[1].pattern) if isinstance(x, tuple)
                               else getattr(x, '__qualname__', repr(type(x)))
                               for x in (v if isinstance(v, list) else [v])])
                    for k, v in t.items())))
    return sig


PRISTINE_PROBE = _pyyaml_probe()
PRISTINE_TABLES = _pyyaml_tables()

ENCODED = [
    'yatiml.loader.load_function, add_to_loader, set_document_type, '
    'Loader.__init__ (per-instance resolver patches), LoadFunction.__call__',
    'yatiml.dumper.dumps_function/dump_function/dumps_json_function/'
    'dump_json_function, add_to_dumper, Dumper.__init__, Dumper.emit_json',
    'yaml.Loader/Dumper.add_constructor/add_representer/'
    'add_implicit_resolver (copy-on-first-write of the class-level tables)']
ASSUMPTIONS = [
    'class sets: P = {Doc(a: int, s: Sub), Sub(x: int)} and Q with the same '
    'class NAMES but other signatures (Doc(b: str), Sub(y: str)); documents '
    'valid for P, valid for Q, invalid for both',
    'operations: create a load / dumps / dumps_json function over P or Q; '
    'call the long-lived load functions on 4 documents; dumps / dumps_json '
    'of P and Q values; a dumps_json call that aborts half way (a value '
    'with a shared sub-object: aliases are not supported by JSON)',
    'histories of length <= 3 (thorough 4) from the import-time state; the '
    'reference outcome is that of freshly created functions, computed when '
    'the harness is imported (no fresh process per history)',
    'thread schedules are outside the claim: the engine has no interleaving '
    'model; the frame condition (no operation writes state another reads) is '
    'the argument offered for them, not a solver verdict',
]


def _mk_P():
    class Sub:
        def __init__(self, x: int) -> None:
            self.x = x

    class Doc:
        def __init__(self, a: int, s: Optional[Sub] = None) -> None:
            self.a, self.s = a, s
    return Doc, Sub


def _mk_Q():
    class Sub:
        def __init__(self, y: str) -> None:
            self.y = y

    class Doc:
        def __init__(self, b: str, s: Optional[Sub] = None) -> None:
            self.b, self.s = b, s
    return Doc, Sub


class DBase:
    """_yatiml_defaults on a base class shared by two unrelated classes."""
    _yatiml_defaults = {'mode': 'x'}    # type: Dict[str, Any]


class Timeout(DBase):
    def __init__(self, name: str, limit: int = 3, mode: str = 'm') -> None:
        self.name, self.limit, self.mode = name, limit, mode

    @classmethod
    def _yatiml_sweeten(cls, node: yatiml.Node) -> None:
        node.remove_attributes_with_default_values(cls)


class Retry(DBase):
    def __init__(self, name: str, limit: int = 30, mode: str = 'm') -> None:
        self.name, self.limit, self.mode = name, limit, mode

    @classmethod
    def _yatiml_sweeten(cls, node: yatiml.Node) -> None:
        node.remove_attributes_with_default_values(cls)


class Shape11:
    """A base class object SHARED by two class sets whose derived classes
    have the same name."""
    def __init__(self, name: str) -> None:
        self.name = name


def _mk_circle(version):
    if version == 1:
        class Circle(Shape11):
            def __init__(self, name: str, radius: float) -> None:
                super().__init__(name)
                self.radius = radius
    else:
        class Circle(Shape11):
            def __init__(self, name: str, radius: float, unit: str = 'm'
                         ) -> None:
                super().__init__(name)
                self.radius, self.unit = radius, unit
    return Circle


class KBase:
    """A registered base class whose savorize normalises the name."""
    def __init__(self, name: str) -> None:
        self.name = name

    @classmethod
    def _yatiml_savorize(cls, node: yatiml.Node) -> None:
        if node.has_attribute_type('name', str):
            node.set_attribute(
                'name', str(node.get_attribute('name').get_value())
                .strip().lower())


class KUnit(KBase):
    def __init__(self, name: str, factor: float = 1.0) -> None:
        super().__init__(name)
        self.factor = factor


TEXTK = 'name: "  KiloMetre "\nfactor: 1000.0\n'
CV1, CV2 = _mk_circle(1), _mk_circle(2)
TEXT11 = 'name: c\nradius: 2.0\n'
PD, PS = _mk_P()
QD, QS = _mk_Q()
DOCS = ['a: 1\ns:\n  x: 2\n', 'b: t\ns:\n  y: u\n', 'a: [1\n', 'zz: 1\n']
PROBES = ['a: 1e5\nb: [yes, no, 1_000, 2001-12-14]\n', '- !!python/none x\n',
          'x: 1.5\n', "k: 'true'\n"]


def _functions():
    return {
        'loadP': yatiml.load_function(PD, PS),
        'loadQ': yatiml.load_function(QD, QS),
        'loadAny': yatiml.load_function(),
        'dumpsP': yatiml.dumps_function(PD, PS),
        'dumpsQ': yatiml.dumps_function(QD, QS),
        'jsonP': yatiml.dumps_json_function(PD, PS),
        'jsonQ': yatiml.dumps_json_function(QD, QS),
        'dumpsT': yatiml.dumps_function(Timeout),
        'dumpsR': yatiml.dumps_function(Retry),
        'loadR': yatiml.load_function(Retry),
        'loadV1': yatiml.load_function(Shape11, CV1),
        'loadV2': yatiml.load_function(Shape11, CV2),
        'dumpsV1': yatiml.dumps_function(Shape11, CV1),
        'loadK': yatiml.load_function(KUnit, KBase),
    }


def _shared_value():
    s = PS(7)
    return [s, s]           # aliases are not supported by JSON: aborts


def _outcome(fn):
    try:
        return ('value', plain(fn()))
    except Exception as e:   # noqa
        return ('error', type(e).__name__)


def _battery(F):
    """Results of a fixed set of calls on the functions F."""
    out = []
    for d in DOCS:
        out.append(_outcome(lambda: F['loadP'](d)))
        out.append(_outcome(lambda: F['loadQ'](d)))
        out.append(_outcome(lambda: F['loadAny'](d)))
    out.append(_outcome(lambda: F['dumpsP'](PD(1, PS(2)))))
    out.append(_outcome(lambda: F['dumpsQ'](QD('t', QS('u')))))
    out.append(_outcome(lambda: F['jsonP'](PD(1, PS(2)), indent=2)))
    out.append(_outcome(lambda: F['jsonQ']([QD('t'), 'é'],
                                           ensure_ascii=False)))
    out.append(_outcome(lambda: F['dumpsT'](Timeout('t'))))
    out.append(_outcome(lambda: F['dumpsR'](Retry('r', 3))))
    out.append(_outcome(lambda: F['dumpsR'](Retry('r', 30, 'x'))))
    out.append(_outcome(lambda: F['loadR'](F['dumpsR'](Retry('r', 3)))))
    # classes registered with one function are unknown to the others
    out.append(_outcome(lambda: F['dumpsP'](QD('t'))))
    out.append(_outcome(lambda: F['jsonQ'](PS(1))))
    out.append(_outcome(lambda: F['loadAny']('!Doc {a: 1}')))
    # same-named classes under a shared base: each function builds ITS class
    out.append(_outcome(lambda: F['loadV1'](TEXT11)))
    out.append(_outcome(lambda: F['loadV2'](TEXT11)))
    out.append(_outcome(lambda: F['dumpsV1'](CV2('c', 1.0))))
    out.append(('own classes',
                _outcome(lambda: type(F['loadV1'](TEXT11)) is CV1),
                _outcome(lambda: type(F['loadV2'](TEXT11)) is CV2)))
    # a hook of a registered base class runs on EVERY load (expected value
    # stated here, not taken from a first run)
    out.append(('base hook', _outcome(lambda: F['loadK'](TEXTK).name)
                == ('value', ('str', 'kilometre')),
                _outcome(lambda: yatiml.load_function(KUnit, KBase)(
                    TEXTK).name) == ('value', ('str', 'kilometre'))))
    # PyYAML itself: what it did before yatiml was ever used
    out.append(('pyyaml', _pyyaml_probe() == PRISTINE_PROBE,
                _pyyaml_tables() == PRISTINE_TABLES))
    return out


def _user_sig():
    return [sorted((k, _table_sig(v) if isinstance(
        v, (dict, list, set, str, int, float, bool, type(None))) else '')
        for k, v in c.__dict__.items() if k != '__slotnames__')
        for c in (PD, PS, QD, QS, DBase, Timeout, Retry)]


def _module_state():
    """Everything mutable that lives at module or function level in yatiml:
    module globals that are containers, and container-valued DEFAULT
    ARGUMENTS of every function and method (a default is created once and
    shared by all calls)."""
    import sys
    import types
    out = []
    for mname in sorted(m for m in sys.modules
                        if m == 'yatiml' or m.startswith('yatiml.')):
        mod = sys.modules[mname]
        fns = []
        for name, obj in sorted(vars(mod).items()):
            if name.startswith('__'):
                continue
            if isinstance(obj, (dict, list, set)) and \
                    getattr(obj, '__module__', None) is None:
                out.append((mname, name, _table_sig(obj)
                            if len(obj) < 200 else len(obj)))
            if isinstance(obj, types.FunctionType) and \
                    obj.__module__ == mname:
                fns.append((name, obj))
            if isinstance(obj, type) and obj.__module__ == mname:
                for k, v in sorted(vars(obj).items()):
                    f = getattr(v, '__func__', v)
                    if isinstance(f, types.FunctionType):
                        fns.append((name + '.' + k, f))
        for name, f in fns:
            for d in (f.__defaults__ or ()) + tuple(
                    (f.__kwdefaults__ or {}).values()):
                if isinstance(d, (dict, list, set)):
                    out.append((mname, name, 'default',
                                sorted(map(repr, d)) if isinstance(d, set)
                                else _table_sig(d)))
    return out


def _yatiml_base_sig():
    return [_class_sig(c) for c in (yatiml.loader.Loader,
                                    yatiml.dumper.Dumper)] + [
        _table_sig(yatiml.util.scalar_type_to_tag)]


# the user's classes and yatiml's base classes BEFORE any function is made
PRISTINE_USER = None
PRISTINE_YATIML = None


# ------------------------------------------------------------- snapshots
_TABLES = ['yaml_constructors', 'yaml_multi_constructors',
           'yaml_representers', 'yaml_multi_representers',
           'yaml_implicit_resolvers', 'yaml_path_resolvers']


def _table_sig(t):
    if isinstance(t, dict):
        return sorted((repr(k), _table_sig(v)) for k, v in t.items())
    if isinstance(t, (list, tuple)):
        return [_table_sig(x) for x in t]
    if hasattr(t, 'pattern'):
        return ('re', t.pattern, t.flags)
    if isinstance(t, (str, int, float, bool, type(None))):
        return t
    return ('obj', type(t).__name__, id(t))


def _class_sig(c):
    sig = {}
    for name in _TABLES + ['_registered_classes', '_additional_classes',
                           'document_type', 'output_format']:
        if name in c.__dict__:
            sig[name] = _table_sig(c.__dict__[name])
    sig['__dict__keys'] = sorted(k for k in c.__dict__)
    # class-level mutable state that instances might share (lists/dicts)
    sig['mutable'] = sorted(
        (k, _table_sig(v)) for k, v in c.__dict__.items()
        if isinstance(v, (list, dict, set)) and k not in _TABLES + [
            '_registered_classes', '_additional_classes'])
    return sig


def _tracked():
    cs = [yaml.SafeLoader, yaml.SafeDumper, yaml.Loader, yaml.Dumper,
          yaml.BaseLoader, yaml.resolver.Resolver,
          yaml.constructor.SafeConstructor,
          yaml.representer.SafeRepresenter, yatiml.loader.Loader,
          yatiml.dumper.Dumper]
    cs += [LONG_LIVED['loadP'].loader, LONG_LIVED['loadQ'].loader,
           LONG_LIVED['loadAny'].loader, LONG_LIVED['dumpsP'].dumper,
           LONG_LIVED['dumpsQ'].dumper, LONG_LIVED['jsonP'].dumper,
           LONG_LIVED['jsonQ'].dumper]
    return cs


PRISTINE_USER = _user_sig()
PRISTINE_YATIML = _yatiml_base_sig()
LONG_LIVED = _functions()
BASELINE = _battery(_functions())       # what fresh functions give
# not an assert: a tree on which the second function already differs from
# the first must be REPORTED (every history then fails), not crash the check
IMPORT_OK = _battery(LONG_LIVED) == BASELINE


def snapshot():
    snap = {'classes': [_class_sig(c) for c in _tracked()],
            'scalar_type_to_tag': _table_sig(
                yatiml.util.scalar_type_to_tag),
            # __slotnames__ is copyreg's cache on the class (written by
            # copy/pickle machinery, e.g. the engine's own deep copies)
            'user': _user_sig(),
            'module_state': _module_state()}
    return snap


def _op(op):
    """One operation on the current state; its own result is irrelevant."""
    F = LONG_LIVED
    if op == 0:
        yatiml.load_function(PD, PS)
    elif op == 1:
        yatiml.load_function(QD, QS)
    elif op == 2:
        yatiml.dumps_function(QD, QS)
    elif op == 3:
        yatiml.dumps_json_function(PD, PS)
    elif op == 4:
        yatiml.dump_function(PD)
        yatiml.dump_json_function(QD)
    elif op <= 8:
        _outcome(lambda: F['loadP'](DOCS[op - 5]))
    elif op <= 12:
        _outcome(lambda: F['loadQ'](DOCS[op - 9]))
    elif op == 13:
        _outcome(lambda: F['dumpsP'](PD(3)))
    elif op == 14:
        _outcome(lambda: F['jsonP'](_shared_value()))      # aborts half way
    elif op == 15:
        _outcome(lambda: F['jsonQ'](_shared_value(), indent=4))
    elif op == 16:
        _outcome(lambda: F['dumpsP'](QD('x')))              # unknown class
    elif op == 17:
        _outcome(lambda: F['loadAny']('&a [*a]'))
    elif op == 18:
        _outcome(lambda: yatiml.load_function(List[int])('[1, x]'))
    elif op == 19:
        _outcome(lambda: F['dumpsT'](Timeout('t', 5)))
    elif op == 20:
        _outcome(lambda: F['dumpsR'](Retry('r')))
    elif op == 21:
        _outcome(lambda: yatiml.dump_json_function()({'a': 1},
                                                     io.StringIO()))
    elif op == 22:
        _outcome(lambda: F['loadV1'](TEXT11))
    elif op == 23:
        _outcome(lambda: F['loadV2'](TEXT11))
    else:
        _outcome(lambda: yatiml.load_function(Shape11, CV2)(TEXT11))


NOPS = 25


def _history(n, o1, o2, o3, o4):
    ops = [o1, o2, o3, o4][:n]
    for i, o in enumerate(ops):
        before = snapshot()
        for k in range(NOPS):           # concrete operation per path
            if o == k:
                _op(k)
        after = snapshot()
        if after != before:
            if not SYMBOLIC:
                diff = [k for k in before if before[k] != after[k]]
                note(step=i, operation=o, changed=diff,
                     before=str(before)[:400], after=str(after)[:400])
            return False
    got = _battery(LONG_LIVED)
    own = ('own classes', ('value', ('bool', True)), ('value', ('bool', True)))
    pristine = (got[-1] == ('pyyaml', True, True) and got[-3] == own
                and got[-2] == ('base hook', True, True) and IMPORT_OK
                and _user_sig() == PRISTINE_USER
                and _yatiml_base_sig() == PRISTINE_YATIML)
    if not pristine:
        if not SYMBOLIC:
            note(history=ops, pyyaml_as_before_first_use=got[-1],
                 each_function_builds_its_own_classes=got[-3],
                 base_class_hook_runs_on_every_load=got[-2],
                 long_lived_functions_equal_fresh_ones_at_import=IMPORT_OK,
                 user_classes_unchanged=_user_sig() == PRISTINE_USER,
                 yatiml_base_classes_unchanged=(
                     _yatiml_base_sig() == PRISTINE_YATIML))
        return False
    if not SYMBOLIC:
        bad = [(i, g, w) for i, (g, w) in enumerate(zip(got, BASELINE))
               if g != w]
        note(history=ops, differing_calls=bad[:3])
    return got == BASELINE


def histories(n: int, o1: int, o2: int, o3: int, o4: int) -> bool:
    """
    pre: 0 <= n <= 3
    pre: 0 <= o1 < 25 and 0 <= o2 < 25 and 0 <= o3 < 25 and o4 == 0
    post: __return__
    """
    s = slice_no(-1)
    if s >= 0 and n >= 1 and o1 != s:
        return True
    if n < 3 and o3 != 0:
        return True
    if n < 2 and o2 != 0:
        return True
    if n < 1 and o1 != 0:
        return True
    return _history(n, o1, o2, o3, o4)


def histories2(o1: int, o2: int) -> bool:
    """
    pre: 0 <= o1 < 25 and 0 <= o2 < 25
    post: __return__
    """
    s = slice_no(-1)
    if s >= 0 and o1 != s:
        return True
    return _history(2, o1, o2, 0, 0)


def histories_reach(o1: int, o2: int) -> bool:
    """
    pre: 0 <= o1 < 25 and 0 <= o2 < 25
    post: __return__
    """
    if o1 != 14:
        return True
    ok = _history(2, o1, o2, 0, 0)
    return not (ok and o1 == 14 and o2 == 1)



# ------------------------------------------------ interleaving at callbacks
# A coarse but real family of schedules: while operation A is suspended at
# one of the points where yatiml calls back into user code (a recogniser, a
# savorize/sweeten hook, a constructor, the read() of a source stream, the
# write() of a sink), a second operation B runs from start to end -- on the
# same function object, on another function over the same classes, or on any
# of the operations of _op() -- and then A resumes.  This is what a second
# thread pre-empting A at that point does.  Pre-emption between two arbitrary
# bytecodes is outside the claim.
_Y = {'k': -1, 'n': 0, 'hook': None}


def _yield_point():
    i = _Y['n']
    _Y['n'] = i + 1
    if _Y['hook'] is not None and i == _Y['k']:
        h = _Y['hook']
        _Y['hook'] = None
        h()


class HSub:
    def __init__(self, x: int) -> None:
        _yield_point()
        self.x = x

    @classmethod
    def _yatiml_recognize(cls, node: yatiml.UnknownNode) -> None:
        _yield_point()
        node.require_attribute('x', int)

    @classmethod
    def _yatiml_savorize(cls, node: yatiml.Node) -> None:
        _yield_point()

    @classmethod
    def _yatiml_sweeten(cls, node: yatiml.Node) -> None:
        _yield_point()


class HDoc:
    def __init__(self, a: int, s: Optional[HSub] = None,
                 t: Optional[HSub] = None, u: float = 1.5) -> None:
        _yield_point()
        self.a, self.s, self.t, self.u = a, s, t, u

    @classmethod
    def _yatiml_savorize(cls, node: yatiml.Node) -> None:
        _yield_point()

    @classmethod
    def _yatiml_sweeten(cls, node: yatiml.Node) -> None:
        _yield_point()
        node.remove_attributes_with_default_values(cls)


class _YSink:
    def __init__(self):
        self.parts = []

    def write(self, text):
        _yield_point()
        self.parts.append(text)


class _YSource(io.StringIO):
    def read(self, size=-1):
        _yield_point()
        return super().read(size)


HTEXT = ['a: 1\ns: {x: 2}\nt: {x: 3}\nu: 1e3\n',
         'a: 1\ns: {x: 2}\nt: {x: q}\n',
         'a: 5\nt:\n  x: 6\n',
         'a: 5\nzz: 1\n']


def _hvalue(i):
    if i == 0:
        return HDoc(1, HSub(2), HSub(3), 2.5)
    if i == 1:
        return [HDoc(7, None, HSub(8)), 'é', {'k': [True, None, 1.5]}]
    s = HSub(9)
    return HDoc(4, s, s)        # shared: JSON refuses it half way


def _hfunctions():
    return {'load': yatiml.load_function(HDoc, HSub),
            'dumps': yatiml.dumps_function(HDoc, HSub),
            'json': yatiml.dumps_json_function(HDoc, HSub),
            'dump': yatiml.dump_function(HDoc, HSub),
            'jdump': yatiml.dump_json_function(HDoc, HSub)}


def _sunk(fn, value, **kw):
    sink = _YSink()
    fn(value, sink, **kw)
    return ''.join(sink.parts)


NA, NB_H = 9, 8


def _op_a(HF, a):
    """The suspended operation; its outcome."""
    if a == 0:
        return _outcome(lambda: HF['load'](HTEXT[0]))
    if a == 1:
        return _outcome(lambda: HF['load'](HTEXT[1]))
    if a == 2:
        return _outcome(lambda: HF['dumps'](_hvalue(0)))
    if a == 3:
        return _outcome(lambda: HF['json'](_hvalue(0), indent=2))
    if a == 4:
        return _outcome(lambda: _sunk(HF['dump'], _hvalue(0)))
    if a == 5:
        return _outcome(lambda: _sunk(HF['jdump'], _hvalue(1), indent=2,
                                      ensure_ascii=False))
    if a == 6:
        return _outcome(lambda: HF['load'](_YSource(HTEXT[0])))
    if a == 7:
        return _outcome(lambda: HF['json'](_hvalue(2)))
    return _outcome(lambda: HF['json'](_hvalue(1)))


def _op_b(HF, b):
    """The operation that runs in between; its outcome (None for the
    operations of _op(), whose effect is judged by the battery)."""
    if b < NOPS:
        for k in range(NOPS):
            if b == k:
                _op(k)
        return None
    b -= NOPS
    if b == 0:
        return _outcome(lambda: HF['load'](HTEXT[2]))
    if b == 1:
        return _outcome(lambda: HF['load'](HTEXT[3]))
    if b == 2:
        return _outcome(lambda: HF['dumps'](_hvalue(1)))
    if b == 3:
        return _outcome(lambda: HF['json'](_hvalue(1)))
    if b == 4:
        return _outcome(lambda: HF['json'](_hvalue(2), indent=4))
    if b == 5:
        return _outcome(lambda: _sunk(HF['jdump'], _hvalue(0)))
    if b == 6:
        return _outcome(lambda: yatiml.load_function(HDoc, HSub)(HTEXT[0]))
    return _outcome(lambda: yatiml.dumps_json_function(HDoc, HSub)(
        _hvalue(0), indent=1))


def _count_points(HF, a):
    _Y.update(k=-1, n=0, hook=None)
    _op_a(HF, a)
    return _Y['n']


HF_LONG = _hfunctions()
_fresh = _hfunctions()
BASE_A = [_op_a(_fresh, a) for a in range(NA)]
BASE_B = [_op_b(_fresh, b) for b in range(NOPS, NOPS + NB_H)]
POINTS = [_count_points(_fresh, a) for a in range(NA)]
MAXK = max(POINTS)
KCAP = 8 if tier() == 'quick' else 1000
assert min(POINTS) >= 2, POINTS
assert [_op_a(HF_LONG, a) for a in range(NA)] == BASE_A
assert BASE_A[0][0] == 'value' and BASE_A[1][0] == 'error' \
    and BASE_A[7][0] == 'error' and BASE_A[5][0] == 'value', BASE_A


def _hsnapshot():
    return (snapshot(), [_class_sig(c) for c in (
        HF_LONG['load'].loader, HF_LONG['dumps'].dumper,
        HF_LONG['json'].dumper, HF_LONG['dump'].dumper,
        HF_LONG['jdump'].dumper)],
        [sorted((k, _table_sig(v) if isinstance(
            v, (dict, list, set, str, int, float, bool, type(None))) else '')
            for k, v in c.__dict__.items() if k != '__slotnames__')
         for c in (HDoc, HSub)])


def _interleave(a, k, b):
    seen = {}
    before = _hsnapshot()

    def other():
        seen['mid'] = _hsnapshot() == before     # no transient write by A
        seen['b'] = _op_b(HF_LONG, b)
        seen['ran'] = True

    _Y.update(k=k, n=0, hook=other)
    got_a = _op_a(HF_LONG, a)
    _Y.update(k=-1, hook=None)
    if not seen.get('ran'):
        return None                 # A has fewer callback points than k
    ok_mid = seen['mid']
    ok_a = got_a == BASE_A[a]
    ok_b = b < NOPS or seen['b'] == BASE_B[b - NOPS]
    ok_after = _hsnapshot() == before
    if tier() == 'quick':
        # light battery: PyYAML pristine, one load and one dump of an
        # unrelated function, A's own functions again
        ok_bat = (_pyyaml_probe() == PRISTINE_PROBE
                  and _pyyaml_tables() == PRISTINE_TABLES
                  and _outcome(lambda: LONG_LIVED['loadP'](DOCS[0]))
                  == BASELINE[0]
                  and _outcome(lambda: LONG_LIVED['jsonP'](
                      PD(1, PS(2)), indent=2)) == BASELINE[14])
    else:
        ok_bat = _battery(LONG_LIVED) == BASELINE
    ok_bat = ok_bat and [_op_a(HF_LONG, x) for x in (0, 3)] == [
        BASE_A[0], BASE_A[3]]
    if not SYMBOLIC:
        note(suspended_operation=a, at_callback_point=k, other_operation=b,
             shared_state_untouched_while_suspended=ok_mid,
             suspended_operation_result_as_alone=ok_a,
             other_operation_result_as_alone=ok_b,
             state_afterwards_unchanged=ok_after,
             later_calls_as_fresh=ok_bat,
             got=str(got_a)[:300], alone=str(BASE_A[a])[:300],
             other_got=str(seen.get('b'))[:300])
    return ok_mid and ok_a and ok_b and ok_after and ok_bat


def interleaved(a: int, k: int, b: int) -> bool:
    """
    pre: 0 <= a < 9 and 0 <= k < 70 and 0 <= b < 33
    post: __return__
    """
    s = slice_no(-1)
    if s >= 0 and (a != s // 3 or b % 3 != s % 3):
        return True
    for x in range(NA):
        if a == x and k >= min(POINTS[x], KCAP):
            return True
    r = _interleave(a, k, b)
    return r is not False


# ---- finer grain: every log call of yatiml is a pre-emption point too
# (a logging handler is user code that yatiml calls at nearly every step of
# recognition, construction and representation, also between a store to an
# object shared by all calls of a function and the use of what was stored)
import logging                                  # noqa: E402


class _YieldHandler(logging.Handler):
    def emit(self, record):
        _yield_point()


_YLOG = logging.getLogger('yatiml')
_YHANDLER = _YieldHandler(level=logging.DEBUG)


def _fine(on):
    if on:
        _YLOG.addHandler(_YHANDLER)
        _YLOG.setLevel(logging.DEBUG)
    else:
        _YLOG.removeHandler(_YHANDLER)
        _YLOG.setLevel(logging.NOTSET)


FINE_A = [0, 1, 2, 3, 6]          # loads and string dumps
FINE_B = [NOPS + 0, NOPS + 1, NOPS + 2, NOPS + 3, NOPS + 4, 5, 13, 14]
_fine(True)
FINE_POINTS = {a: _count_points(_fresh, a) for a in FINE_A}
_fine(False)
FINE_STRIDE = 6 if tier() == 'quick' else 1


def _interleave_fine(a, k, b):
    _fine(True)
    try:
        return _interleave(a, k, b)
    finally:
        _fine(False)


def interleaved_fine(ai: int, k: int, bi: int) -> bool:
    """
    pre: 0 <= ai < 5 and 0 <= k < 400 and 0 <= bi < 8
    post: __return__
    """
    s = slice_no(-1)
    if s >= 0 and (ai != s // 8 or bi != s % 8):
        return True
    a = pick(FINE_A, ai)
    b = pick(FINE_B, bi)
    if k >= FINE_POINTS[a] or k % FINE_STRIDE != 0:
        return True
    r = _interleave_fine(a, k, b)
    return r is not False


def interleaved_reach(a: int, k: int, b: int) -> bool:
    """
    pre: 0 <= a < 9 and 0 <= k < 70 and 0 <= b < 33
    post: __return__
    """
    if a != 3 or b != NOPS + 3:
        return True
    for x in range(NA):
        if a == x and k >= POINTS[x]:
            return True
    r = _interleave(a, k, b)
    return not (r is True and k == POINTS[3] - 1)


CONDITIONS = [
    {'fn': 'histories2', 'slices': list(range(25)), 'quick': 110,
     'thorough': None,
     'bound': 'all 625 histories of 2 operations out of 25: snapshot of every '
              'PyYAML/yatiml class-level registry, of the long-lived '
              'functions\' classes and of the user classes unchanged after '
              'each step; afterwards a battery of calls (P/Q/Any loaders, '
              'YAML and JSON dumpers, default-dropping classes sharing a base, '
              'cross-class-set calls, two functions whose derived classes have '
              'the same name under a shared base class and must each build '
              'their own) equals the fresh-function baseline, and '
              'yaml.safe_load/safe_dump probes and PyYAML\'s class-level '
              'tables equal what they were before yatiml was first used'},
    {'fn': 'histories', 'slices': list(range(25)), 'quick': None,
     'thorough': 900,
     'bound': 'all histories of <= 3 operations out of 25 (one slice per '
              'first operation), same assertions'},
    {'fn': 'interleaved', 'slices': list(range(27)), 'quick': 110,
     'thorough': 1500,
     'bound': 'two operations interleaved at a callback point: operation A '
              '(9 kinds: load of a valid / an invalid document from a string '
              'or from a stream, dumps, dumps_json with indent, dump and '
              'dump_json into a sink object, a JSON dump that is refused half '
              'way) is suspended at its k-th call-back into user code '
              '(recogniser, savorize, constructor, sweeten, read() of the '
              'source, write() of the sink; every k, quick tier: the first 8 points '
              'of an operation), a second operation B '
              '(33 kinds: the 25 operations of the histories and 8 on the '
              'SAME function objects / same classes as A) runs to the end, A '
              'resumes: while A is suspended every class-level registry is '
              'as before A started (no transient write), A and B give what '
              'they give alone, the state afterwards is unchanged and the '
              'battery equals the fresh-function baseline.  Pre-emption '
              'between arbitrary bytecodes is outside the claim'},
    {'fn': 'interleaved_fine', 'slices': list(range(40)), 'quick': 110,
     'thorough': 900,
     'bound': 'the same with every LOG CALL of yatiml as a pre-emption point '
              '(a logging handler on the yatiml logger is user code called '
              'at nearly every step): operation A out of 5 (load of a valid / '
              'invalid document from a string or a stream, dumps, '
              'dumps_json) suspended at its k-th point (thorough: every k; '
              'quick: every 6th), operation B out of 8 (loads and dumps on '
              'the SAME function objects, an unrelated load and dumps, a JSON '
              'dump refused half way) runs to the end, A resumes; same '
              'assertions as interleaved'},
    {'fn': 'interleaved_reach', 'quick': 60, 'thorough': 60,
     'expect': 'REFUTED',
     'bound': 'reachability twin: a JSON dump suspended at its last sweeten '
              'hook while another JSON dump of the same function runs'},
    {'fn': 'histories_reach', 'quick': 60, 'thorough': 60,
     'expect': 'REFUTED',
     'bound': 'reachability twin: an aborted JSON dump followed by creating '
              'a same-named loader'},
]
