"""C11 -- load and dump functions are stateless, isolated, and leave PyYAML
untouched.

(a) frame condition, one step from the state reached so far: a structural
snapshot of every class-level registry of PyYAML and yatiml, of all load/dump
functions created so far and of the user classes is taken, one solver-chosen
operation runs (create a function over class set P or over a same-named set
Q, call a function on a valid or invalid document/value, a JSON dump that
aborts half way), and everything not owned by a function created in that step
must be unchanged.
(b) histories of <= 3 operations, then a battery of calls on the long-lived
functions must give what freshly created functions give.
Thread schedules are NOT covered (no scheduler model in the engine).
"""
import copy
import io
from typing import Any, Dict, List, Optional

import yaml

import yatiml
import yatiml.util
from vlib.common import (SYMBOLIC, install_stubs, note, pick, plain,
                         slice_no)

install_stubs(composer=False)

# ---- PyYAML as it is BEFORE any yatiml function has been created or called
_PY_PROBES = ['a: 1e5\nb: [yes, no, 1_000, 2001-12-14]\n', 'x: 1.5\n',
              "k: 'true'\n", '- 1_000.5\n- 190:20:30.15\n- 0o17\n- .5e3\n',
              'true: on\n']
_PY_VALUES = [{'b': ['yes', 1e5, '1e5', '.5e3', True], 'a': None},
              ['1_000', 1.5e-7, 'null', '~']]


def _pyyaml_probe():
    out = []
    for p in _PY_PROBES:
        try:
            out.append(repr(yaml.safe_load(p)))
        except Exception as e:   # noqa
            out.append('error ' + type(e).__name__)
    for v in _PY_VALUES:
        out.append(yaml.safe_dump(v))
    return out


def _pyyaml_tables():
    sig = []
    for c in (yaml.SafeLoader, yaml.SafeDumper, yaml.Loader, yaml.Dumper,
              yaml.BaseLoader, yaml.resolver.Resolver,
              yaml.resolver.BaseResolver, yaml.constructor.SafeConstructor,
              yaml.representer.SafeRepresenter):
        for name in ('yaml_constructors', 'yaml_multi_constructors',
                     'yaml_representers', 'yaml_multi_representers',
                     'yaml_implicit_resolvers', 'yaml_path_resolvers'):
            t = getattr(c, name, None)
            if isinstance(t, dict):
                sig.append((c.__name__, name, sorted(
                    (repr(k), [(x[0], x[1].pattern) if isinstance(x, tuple)
                               else getattr(x, '__qualname__', repr(type(x)))
                               for x in (v if isinstance(v, list) else [v])])
                    for k, v in t.items())))
    return sig


PRISTINE_PROBE = _pyyaml_probe()
PRISTINE_TABLES = _pyyaml_tables()

ENCODED = [
    'yatiml.loader.load_function, add_to_loader, set_document_type, '
    'Loader.__init__ (per-instance resolver patches), LoadFunction.__call__',
    'yatiml.dumper.dumps_function/dump_function/dumps_json_function/'
    'dump_json_function, add_to_dumper, Dumper.__init__, Dumper.emit_json',
    'yaml.Loader/Dumper.add_constructor/add_representer/'
    'add_implicit_resolver (copy-on-first-write of the class-level tables)']
ASSUMPTIONS = [
    'class sets: P = {Doc(a: int, s: Sub), Sub(x: int)} and Q with the same '
    'class NAMES but other signatures (Doc(b: str), Sub(y: str)); documents '
    'valid for P, valid for Q, invalid for both',
    'operations: create a load / dumps / dumps_json function over P or Q; '
    'call the long-lived load functions on 4 documents; dumps / dumps_json '
    'of P and Q values; a dumps_json call that aborts half way (a value '
    'with a shared sub-object: aliases are not supported by JSON)',
    'histories of length <= 3 (thorough 4) from the import-time state; the '
    'reference outcome is that of freshly created functions, computed when '
    'the harness is imported (no fresh process per history)',
    'thread schedules are outside the claim: the engine has no interleaving '
    'model; the frame condition (no operation writes state another reads) is '
    'the argument offered for them, not a solver verdict',
]


def _mk_P():
    class Sub:
        def __init__(self, x: int) -> None:
            self.x = x

    class Doc:
        def __init__(self, a: int, s: Optional[Sub] = None) -> None:
            self.a, self.s = a, s
    return Doc, Sub


def _mk_Q():
    class Sub:
        def __init__(self, y: str) -> None:
            self.y = y

    class Doc:
        def __init__(self, b: str, s: Optional[Sub] = None) -> None:
            self.b, self.s = b, s
    return Doc, Sub


class DBase:
    """_yatiml_defaults on a base class shared by two unrelated classes."""
    _yatiml_defaults = {'mode': 'x'}    # type: Dict[str, Any]


class Timeout(DBase):
    def __init__(self, name: str, limit: int = 3, mode: str = 'm') -> None:
        self.name, self.limit, self.mode = name, limit, mode

    @classmethod
    def _yatiml_sweeten(cls, node: yatiml.Node) -> None:
        node.remove_attributes_with_default_values(cls)


class Retry(DBase):
    def __init__(self, name: str, limit: int = 30, mode: str = 'm') -> None:
        self.name, self.limit, self.mode = name, limit, mode

    @classmethod
    def _yatiml_sweeten(cls, node: yatiml.Node) -> None:
        node.remove_attributes_with_default_values(cls)


class Shape11:
    """A base class object SHARED by two class sets whose derived classes
    have the same name."""
    def __init__(self, name: str) -> None:
        self.name = name


def _mk_circle(version):
    if version == 1:
        class Circle(Shape11):
            def __init__(self, name: str, radius: float) -> None:
                super().__init__(name)
                self.radius = radius
    else:
        class Circle(Shape11):
            def __init__(self, name: str, radius: float, unit: str = 'm'
                         ) -> None:
                super().__init__(name)
                self.radius, self.unit = radius, unit
    return Circle


CV1, CV2 = _mk_circle(1), _mk_circle(2)
TEXT11 = 'name: c\nradius: 2.0\n'
PD, PS = _mk_P()
QD, QS = _mk_Q()
DOCS = ['a: 1\ns:\n  x: 2\n', 'b: t\ns:\n  y: u\n', 'a: [1\n', 'zz: 1\n']
PROBES = ['a: 1e5\nb: [yes, no, 1_000, 2001-12-14]\n', '- !!python/none x\n',
          'x: 1.5\n', "k: 'true'\n"]


def _functions():
    return {
        'loadP': yatiml.load_function(PD, PS),
        'loadQ': yatiml.load_function(QD, QS),
        'loadAny': yatiml.load_function(),
        'dumpsP': yatiml.dumps_function(PD, PS),
        'dumpsQ': yatiml.dumps_function(QD, QS),
        'jsonP': yatiml.dumps_json_function(PD, PS),
        'jsonQ': yatiml.dumps_json_function(QD, QS),
        'dumpsT': yatiml.dumps_function(Timeout),
        'dumpsR': yatiml.dumps_function(Retry),
        'loadR': yatiml.load_function(Retry),
        'loadV1': yatiml.load_function(Shape11, CV1),
        'loadV2': yatiml.load_function(Shape11, CV2),
        'dumpsV1': yatiml.dumps_function(Shape11, CV1),
    }


def _shared_value():
    s = PS(7)
    return [s, s]           # aliases are not supported by JSON: aborts


def _outcome(fn):
    try:
        return ('value', plain(fn()))
    except Exception as e:   # noqa
        return ('error', type(e).__name__)


def _battery(F):
    """Results of a fixed set of calls on the functions F."""
    out = []
    for d in DOCS:
        out.append(_outcome(lambda: F['loadP'](d)))
        out.append(_outcome(lambda: F['loadQ'](d)))
        out.append(_outcome(lambda: F['loadAny'](d)))
    out.append(_outcome(lambda: F['dumpsP'](PD(1, PS(2)))))
    out.append(_outcome(lambda: F['dumpsQ'](QD('t', QS('u')))))
    out.append(_outcome(lambda: F['jsonP'](PD(1, PS(2)), indent=2)))
    out.append(_outcome(lambda: F['jsonQ']([QD('t'), 'é'],
                                           ensure_ascii=False)))
    out.append(_outcome(lambda: F['dumpsT'](Timeout('t'))))
    out.append(_outcome(lambda: F['dumpsR'](Retry('r', 3))))
    out.append(_outcome(lambda: F['dumpsR'](Retry('r', 30, 'x'))))
    out.append(_outcome(lambda: F['loadR'](F['dumpsR'](Retry('r', 3)))))
    # classes registered with one function are unknown to the others
    out.append(_outcome(lambda: F['dumpsP'](QD('t'))))
    out.append(_outcome(lambda: F['jsonQ'](PS(1))))
    out.append(_outcome(lambda: F['loadAny']('!Doc {a: 1}')))
    # same-named classes under a shared base: each function builds ITS class
    out.append(_outcome(lambda: F['loadV1'](TEXT11)))
    out.append(_outcome(lambda: F['loadV2'](TEXT11)))
    out.append(_outcome(lambda: F['dumpsV1'](CV2('c', 1.0))))
    out.append(('own classes',
                _outcome(lambda: type(F['loadV1'](TEXT11)) is CV1),
                _outcome(lambda: type(F['loadV2'](TEXT11)) is CV2)))
    # PyYAML itself: what it did before yatiml was ever used
    out.append(('pyyaml', _pyyaml_probe() == PRISTINE_PROBE,
                _pyyaml_tables() == PRISTINE_TABLES))
    return out


def _user_sig():
    return [sorted((k, _table_sig(v) if isinstance(
        v, (dict, list, set, str, int, float, bool, type(None))) else '')
        for k, v in c.__dict__.items() if k != '__slotnames__')
        for c in (PD, PS, QD, QS, DBase, Timeout, Retry)]


def _yatiml_base_sig():
    return [_class_sig(c) for c in (yatiml.loader.Loader,
                                    yatiml.dumper.Dumper)] + [
        _table_sig(yatiml.util.scalar_type_to_tag)]


# the user's classes and yatiml's base classes BEFORE any function is made
PRISTINE_USER = None
PRISTINE_YATIML = None


# ------------------------------------------------------------- snapshots
_TABLES = ['yaml_constructors', 'yaml_multi_constructors',
           'yaml_representers', 'yaml_multi_representers',
           'yaml_implicit_resolvers', 'yaml_path_resolvers']


def _table_sig(t):
    if isinstance(t, dict):
        return sorted((repr(k), _table_sig(v)) for k, v in t.items())
    if isinstance(t, (list, tuple)):
        return [_table_sig(x) for x in t]
    if hasattr(t, 'pattern'):
        return ('re', t.pattern, t.flags)
    if isinstance(t, (str, int, float, bool, type(None))):
        return t
    return ('obj', type(t).__name__, id(t))


def _class_sig(c):
    sig = {}
    for name in _TABLES + ['_registered_classes', '_additional_classes',
                           'document_type', 'output_format']:
        if name in c.__dict__:
            sig[name] = _table_sig(c.__dict__[name])
    sig['__dict__keys'] = sorted(k for k in c.__dict__)
    # class-level mutable state that instances might share (lists/dicts)
    sig['mutable'] = sorted(
        (k, _table_sig(v)) for k, v in c.__dict__.items()
        if isinstance(v, (list, dict, set)) and k not in _TABLES + [
            '_registered_classes', '_additional_classes'])
    return sig


def _tracked():
    cs = [yaml.SafeLoader, yaml.SafeDumper, yaml.Loader, yaml.Dumper,
          yaml.BaseLoader, yaml.resolver.Resolver,
          yaml.constructor.SafeConstructor,
          yaml.representer.SafeRepresenter, yatiml.loader.Loader,
          yatiml.dumper.Dumper]
    cs += [LONG_LIVED['loadP'].loader, LONG_LIVED['loadQ'].loader,
           LONG_LIVED['loadAny'].loader, LONG_LIVED['dumpsP'].dumper,
           LONG_LIVED['dumpsQ'].dumper, LONG_LIVED['jsonP'].dumper,
           LONG_LIVED['jsonQ'].dumper]
    return cs


PRISTINE_USER = _user_sig()
PRISTINE_YATIML = _yatiml_base_sig()
LONG_LIVED = _functions()
BASELINE = _battery(_functions())       # what fresh functions give
assert _battery(LONG_LIVED) == BASELINE


def snapshot():
    snap = {'classes': [_class_sig(c) for c in _tracked()],
            'scalar_type_to_tag': _table_sig(
                yatiml.util.scalar_type_to_tag),
            # __slotnames__ is copyreg's cache on the class (written by
            # copy/pickle machinery, e.g. the engine's own deep copies)
            'user': _user_sig()}
    return snap


def _op(op):
    """One operation on the current state; its own result is irrelevant."""
    F = LONG_LIVED
    if op == 0:
        yatiml.load_function(PD, PS)
    elif op == 1:
        yatiml.load_function(QD, QS)
    elif op == 2:
        yatiml.dumps_function(QD, QS)
    elif op == 3:
        yatiml.dumps_json_function(PD, PS)
    elif op == 4:
        yatiml.dump_function(PD)
        yatiml.dump_json_function(QD)
    elif op <= 8:
        _outcome(lambda: F['loadP'](DOCS[op - 5]))
    elif op <= 12:
        _outcome(lambda: F['loadQ'](DOCS[op - 9]))
    elif op == 13:
        _outcome(lambda: F['dumpsP'](PD(3)))
    elif op == 14:
        _outcome(lambda: F['jsonP'](_shared_value()))      # aborts half way
    elif op == 15:
        _outcome(lambda: F['jsonQ'](_shared_value(), indent=4))
    elif op == 16:
        _outcome(lambda: F['dumpsP'](QD('x')))              # unknown class
    elif op == 17:
        _outcome(lambda: F['loadAny']('&a [*a]'))
    elif op == 18:
        _outcome(lambda: yatiml.load_function(List[int])('[1, x]'))
    elif op == 19:
        _outcome(lambda: F['dumpsT'](Timeout('t', 5)))
    elif op == 20:
        _outcome(lambda: F['dumpsR'](Retry('r')))
    elif op == 21:
        _outcome(lambda: yatiml.dump_json_function()({'a': 1},
                                                     io.StringIO()))
    elif op == 22:
        _outcome(lambda: F['loadV1'](TEXT11))
    elif op == 23:
        _outcome(lambda: F['loadV2'](TEXT11))
    else:
        _outcome(lambda: yatiml.load_function(Shape11, CV2)(TEXT11))


NOPS = 25


def _history(n, o1, o2, o3, o4):
    ops = [o1, o2, o3, o4][:n]
    for i, o in enumerate(ops):
        before = snapshot()
        for k in range(NOPS):           # concrete operation per path
            if o == k:
                _op(k)
        after = snapshot()
        if after != before:
            if not SYMBOLIC:
                diff = [k for k in before if before[k] != after[k]]
                note(step=i, operation=o, changed=diff,
                     before=str(before)[:400], after=str(after)[:400])
            return False
    got = _battery(LONG_LIVED)
    own = ('own classes', ('value', ('bool', True)), ('value', ('bool', True)))
    pristine = (got[-1] == ('pyyaml', True, True) and got[-2] == own
                and _user_sig() == PRISTINE_USER
                and _yatiml_base_sig() == PRISTINE_YATIML)
    if not pristine:
        if not SYMBOLIC:
            note(history=ops, pyyaml_as_before_first_use=got[-1],
                 each_function_builds_its_own_classes=got[-2],
                 user_classes_unchanged=_user_sig() == PRISTINE_USER,
                 yatiml_base_classes_unchanged=(
                     _yatiml_base_sig() == PRISTINE_YATIML))
        return False
    if not SYMBOLIC:
        bad = [(i, g, w) for i, (g, w) in enumerate(zip(got, BASELINE))
               if g != w]
        note(history=ops, differing_calls=bad[:3])
    return got == BASELINE


def histories(n: int, o1: int, o2: int, o3: int, o4: int) -> bool:
    """
    pre: 0 <= n <= 3
    pre: 0 <= o1 < 25 and 0 <= o2 < 25 and 0 <= o3 < 25 and o4 == 0
    post: __return__
    """
    s = slice_no(-1)
    if s >= 0 and n >= 1 and o1 != s:
        return True
    if n < 3 and o3 != 0:
        return True
    if n < 2 and o2 != 0:
        return True
    if n < 1 and o1 != 0:
        return True
    return _history(n, o1, o2, o3, o4)


def histories2(o1: int, o2: int) -> bool:
    """
    pre: 0 <= o1 < 25 and 0 <= o2 < 25
    post: __return__
    """
    s = slice_no(-1)
    if s >= 0 and o1 != s:
        return True
    return _history(2, o1, o2, 0, 0)


def histories_reach(o1: int, o2: int) -> bool:
    """
    pre: 0 <= o1 < 25 and 0 <= o2 < 25
    post: __return__
    """
    if o1 != 14:
        return True
    ok = _history(2, o1, o2, 0, 0)
    return not (ok and o1 == 14 and o2 == 1)


CONDITIONS = [
    {'fn': 'histories2', 'slices': list(range(25)), 'quick': 110,
     'thorough': None,
     'bound': 'all 625 histories of 2 operations out of 25: snapshot of every '
              'PyYAML/yatiml class-level registry, of the long-lived '
              'functions\' classes and of the user classes unchanged after '
              'each step; afterwards a battery of calls (P/Q/Any loaders, '
              'YAML and JSON dumpers, default-dropping classes sharing a base, '
              'cross-class-set calls, two functions whose derived classes have '
              'the same name under a shared base class and must each build '
              'their own) equals the fresh-function baseline, and '
              'yaml.safe_load/safe_dump probes and PyYAML\'s class-level '
              'tables equal what they were before yatiml was first used'},
    {'fn': 'histories', 'slices': list(range(25)), 'quick': None,
     'thorough': 900,
     'bound': 'all histories of <= 3 operations out of 25 (one slice per '
              'first operation), same assertions'},
    {'fn': 'histories_reach', 'quick': 60, 'thorough': 60,
     'expect': 'REFUTED',
     'bound': 'reachability twin: an aborted JSON dump followed by creating '
              'a same-named loader'},
]
